package fastaio

import (
	"github.com/virus-evolution/gofasta/pkg/alphabet"
	"github.com/virus-evolution/gofasta/pkg/encoding"
)

const vSigma32 = "ACGTRYSWKMBDHVN-?acgtryswkmbdhvn"

// VH_C17_records: record-level complement / reverse complement in text and encoded form.
func VH_C17_records() {
	n := vParam("L")
	s := make([]byte, n)
	for i := range s {
		s[i] = vNuc(vName("s", i), vSigma32)
	}
	CA := alphabet.MakeCompArray()
	EA := encoding.MakeEncodingArray()
	fr := FastaRecord{ID: "a", Description: "a b", Seq: string(s), Idx: 3}
	c := fr.Complement()
	rc := fr.ReverseComplement()
	vAssert("C17.FR-meta", vAnd(vAnd(c.ID == "a", c.Description == "a b"), vAnd(c.Idx == 3, rc.Idx == 3)))
	vAssert("C17.FR-len", vAnd(len(c.Seq) == n, len(rc.Seq) == n))
	for i := 0; i < n; i++ {
		vAssert("C17.FR-complement", c.Seq[i] == CA[s[i]])
		vAssert("C17.FR-revcomp", rc.Seq[i] == CA[s[n-1-i]])
	}
	vAssert("C17.FR-revcomp-twice", rc.ReverseComplement().Seq == string(s))
	efr := fr.Encode()
	ec := efr.Complement()
	erc := efr.ReverseComplement()
	vAssert("C17.EFR-len", vAnd(len(ec.Seq) == n, len(erc.Seq) == n))
	for i := 0; i < n; i++ {
		vAssert("C17.EFR-encode", efr.Seq[i] == EA[s[i]])
		vAssert("C17.EFR-complement", ec.Seq[i] == EA[CA[s[i]]])
		vAssert("C17.EFR-revcomp", erc.Seq[i] == EA[CA[s[n-1-i]]])
	}
	back := erc.ReverseComplement()
	for i := 0; i < n; i++ {
		vAssert("C17.EFR-revcomp-twice", back.Seq[i] == efr.Seq[i])
	}
	// the original record is not modified by ReverseComplement
	for i := 0; i < n; i++ {
		vAssert("C17.EFR-input-unchanged", efr.Seq[i] == EA[s[i]])
	}
}
