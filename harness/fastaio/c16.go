package fastaio

import (
	"bytes"

	"github.com/virus-evolution/gofasta/pkg/encoding"
)

type vOutcome struct {
	recs  []EncodedFastaRecord
	plain []FastaRecord
	err   bool
	done  bool
}

func vRunReader(which int, data []byte, hard bool) vOutcome {
	n := len(data) + 2
	var o vOutcome
	cErr := make(chan error, n)
	cDone := make(chan bool, n)
	switch which {
	case 0:
		ch := make(chan EncodedFastaRecord, n)
		ReadEncodeAlignment(bytes.NewReader(data), hard, ch, cErr, cDone)
		for len(ch) > 0 {
			o.recs = append(o.recs, <-ch)
		}
	case 1:
		ch := make(chan EncodedFastaRecord, n)
		ReadEncodeScoreAlignment(bytes.NewReader(data), hard, ch, cErr, cDone)
		for len(ch) > 0 {
			o.recs = append(o.recs, <-ch)
		}
	case 2:
		recs, err := ReadEncodeAlignmentToList(bytes.NewReader(data), hard)
		o.recs = recs
		if err != nil {
			o.err = true
		} else {
			o.done = true
		}
		return o
	case 3:
		ch := make(chan FastaRecord, n)
		ReadAlignment(bytes.NewReader(data), ch, cErr, cDone)
		for len(ch) > 0 {
			o.plain = append(o.plain, <-ch)
		}
	}
	o.err = len(cErr) > 0
	o.done = len(cDone) > 0
	return o
}

// VH_C16_total: any byte stream is either read or rejected with an error: never a panic, never both or
// neither of (error, done).
func VH_C16_total() {
	N := vParam("N")
	which := vParam("READER")
	data := make([]byte, N)
	for i := range data {
		data[i] = vByte(vName("b", i))
		if which == 3 {
			// the plain-text reader upper-cases with strings.ToUpper, whose treatment of non-UTF-8 bytes is
			// not modelled byte-symbolically: ASCII streams only for this reader
			vAssume(data[i] < 128)
		}
	}
	o := vRunReader(which, data, false)
	vAssert("C16.total.exactly-one-of-error-or-done", o.err != o.done)
	if o.done {
		vAssert("C16.total.accepted-stream-has-records", len(o.recs)+len(o.plain) > 0)
	}
}

// VH_C16_layout: all four readers give the same records for a valid file whatever its line width, letter case,
// line ends, trailing newline and header description; scores and base counts are those of the sequence.
func VH_C16_layout() {
	R := vParam("R") // records
	W := vParam("W") // width
	EA := encoding.MakeEncodingArray()
	SA := encoding.MakeEncodedScoreArray()
	crlf := vBool("crlf")
	trailing := vBool("trailingNewline")
	descr := vBool("description")
	sep := " "
	if vBool("tabSeparatedDescription") {
		sep = "\t"
	}
	// white space right after '>' and at the end of the header belongs to the description (the whole header)
	lead, trail := "", ""
	switch vChoice("headerPadding", 4) {
	case 1:
		lead = " "
	case 2:
		trail = " "
	case 3:
		lead, trail = "\t", "\t "
	}
	lw := 1 + vChoice("linewidth", W)
	nl := "\n"
	if crlf {
		nl = "\r\n"
	}
	txt := make([][]byte, R)
	var data []byte
	for r := 0; r < R; r++ {
		txt[r] = make([]byte, W)
		for i := range txt[r] {
			txt[r][i] = vNuc(vName("s", r, i), "ACGTRYSWKMBDHVN-?acgtryswkmbdhvn")
		}
		data = append(data, []byte(">"+lead+"id"+string(rune('0'+r)))...)
		if descr {
			data = append(data, []byte(sep+"some text"+trail)...)
		}
		data = append(data, []byte(nl)...)
		for i := 0; i < W; i += lw {
			j := i + lw
			if j > W {
				j = W
			}
			data = append(data, txt[r][i:j]...)
			if r < R-1 || j < W || trailing {
				data = append(data, []byte(nl)...)
			}
		}
	}
	UP := [256]byte{}
	for i := range UP {
		UP[i] = byte(i)
		if i >= 'a' && i <= 'z' {
			UP[i] = byte(i - 32)
		}
	}
	for which := 0; which < 4; which++ {
		o := vRunReader(which, data, false)
		vAssert("C16.layout.accepted", o.done && !o.err)
		if which == 3 {
			vAssert("C16.layout.record-count", len(o.plain) == R)
			if len(o.plain) != R {
				return
			}
			for r := 0; r < R; r++ {
				fr := o.plain[r]
				wantDesc := lead + "id" + string(rune('0'+r))
				if descr {
					wantDesc += sep + "some text" + trail
				}
				vAssert("C16.layout.plain-id-description-idx", fr.ID == "id"+string(rune('0'+r)) && fr.Description == wantDesc && fr.Idx == r)
				vAssert("C16.layout.plain-seq-length", len(fr.Seq) == W)
				if len(fr.Seq) == W {
					for i := 0; i < W; i++ {
						vAssert("C16.layout.plain-seq-is-upper-cased-input", fr.Seq[i] == UP[txt[r][i]])
					}
				}
			}
			continue
		}
		vAssert("C16.layout.record-count", len(o.recs) == R)
		if len(o.recs) != R {
			return
		}
		for r := 0; r < R; r++ {
			er := o.recs[r]
			wantDesc := lead + "id" + string(rune('0'+r))
			if descr {
				wantDesc += sep + "some text" + trail
			}
			vAssert("C16.layout.id-description-idx", er.ID == "id"+string(rune('0'+r)) && er.Description == wantDesc && er.Idx == r)
			vAssert("C16.layout.seq-length", len(er.Seq) == W)
			if len(er.Seq) != W {
				return
			}
			var score int64
			nA, nC, nG, nT := 0, 0, 0, 0
			for i := 0; i < W; i++ {
				vAssert("C16.layout.seq-is-encoded-input", er.Seq[i] == EA[txt[r][i]])
				score += SA[EA[txt[r][i]]]
				nA += vIte(UP[txt[r][i]] == 'A', 1, 0)
				nC += vIte(UP[txt[r][i]] == 'C', 1, 0)
				nG += vIte(UP[txt[r][i]] == 'G', 1, 0)
				nT += vIte(UP[txt[r][i]] == 'T', 1, 0)
			}
			if which == 1 {
				vAssert("C16.layout.score-is-completeness-of-sequence", er.Score == score)
				vAssert("C16.layout.base-counts", vAnd(vAnd(er.Count_A == nA, er.Count_C == nC), vAnd(er.Count_G == nG, er.Count_T == nT)))
			}
		}
	}
}

// VH_C16_strict: unequal record lengths (at any record), a non-IUPAC symbol, no leading header and an empty
// stream are rejected by every reader.
func VH_C16_strict() {
	which := vParam("READER")
	kind := vChoice("kind", 4)
	var data []byte
	switch kind {
	case 0: // unequal lengths: record k is longer/shorter
		k := vChoice("badrecord", 3)
		longer := vBool("longer")
		for r := 0; r < 3; r++ {
			data = append(data, []byte(">r"+string(rune('0'+r))+"\n")...)
			n := 2
			if r == k {
				if longer {
					n = 3
				} else {
					n = 1
				}
			}
			for i := 0; i < n; i++ {
				data = append(data, vNuc(vName("s", r, i), "ACGTN-acgtn"))
			}
			data = append(data, '\n')
		}
	case 1: // a symbol outside the alphabet, anywhere
		k := vChoice("badpos", 4)
		bad := vByte("bad")
		EA := encoding.MakeEncodingArray()
		vAssume(EA[bad] == 0)
		vAssume(bad != '\n' && bad != '\r' && bad != '>')
		seqs := [2][2]byte{{'A', 'C'}, {'G', 'T'}}
		seqs[k/2][k%2] = bad
		data = []byte(">r0\n" + string(seqs[0][:]) + "\n>r1\n" + string(seqs[1][:]) + "\n")
	case 2: // no leading header
		first := vByte("first")
		vAssume(first != '>' && first != '\n' && first != '\r')
		data = append([]byte{first}, []byte("CGT\n>r1\nACGT\n")...)
	case 3: // empty
		data = []byte{}
	}
	if which == 3 && kind == 1 {
		// the plain-text reader has no symbol table (it serves `consensus`); not part of this claim
		vCut()
	}
	o := vRunReader(which, data, false)
	vAssert("C16.strict.rejected-with-error", o.err && !o.done)
}

// VH_C16_longline: a record whose sequence is one line of LEN columns (beyond bufio's default 64 KiB token
// size, within gofasta's 1 MiB) is read identically by all four readers, whether on one line or re-wrapped.
func VH_C16_longline() {
	n := vParam("LEN")
	line := make([]byte, n)
	for i := range line {
		line[i] = "ACGT"[i%4]
	}
	line[n/2] = vNuc("mid", "ACGTN-acgtn")
	line[n-1] = vNuc("last", "ACGTN-acgtn")
	oneLine := append([]byte(">r0 d\n"), line...)
	oneLine = append(oneLine, []byte("\n>r1\n")...)
	oneLine = append(oneLine, line...)
	oneLine = append(oneLine, '\n')
	var wrapped []byte
	for r := 0; r < 2; r++ {
		wrapped = append(wrapped, []byte(">r"+string(rune('0'+r)))...)
		if r == 0 {
			wrapped = append(wrapped, []byte(" d")...)
		}
		wrapped = append(wrapped, '\n')
		for i := 0; i < n; i += 30000 {
			j := i + 30000
			if j > n {
				j = n
			}
			wrapped = append(wrapped, line[i:j]...)
			wrapped = append(wrapped, '\n')
		}
	}
	for which := 0; which < 4; which++ {
		a := vRunReader(which, oneLine, false)
		b := vRunReader(which, wrapped, false)
		vAssert("C16.long.accepted-in-both-layouts", a.done && !a.err && b.done && !b.err)
		if which == 3 {
			vAssert("C16.long.plain-two-records", len(a.plain) == 2 && len(b.plain) == 2)
			if len(a.plain) == 2 && len(b.plain) == 2 {
				vAssert("C16.long.plain-same-sequence", len(a.plain[1].Seq) == n && a.plain[1].Seq == b.plain[1].Seq && a.plain[0].Seq == b.plain[0].Seq)
			}
			continue
		}
		vAssert("C16.long.two-records", len(a.recs) == 2 && len(b.recs) == 2)
		if len(a.recs) == 2 && len(b.recs) == 2 {
			vAssert("C16.long.same-length", len(a.recs[1].Seq) == n && len(b.recs[1].Seq) == n && len(a.recs[0].Seq) == n)
			vAssert("C16.long.same-symbolic-positions", a.recs[1].Seq[n/2] == b.recs[1].Seq[n/2] && a.recs[1].Seq[n-1] == b.recs[1].Seq[n-1] && a.recs[0].Seq[n-1] == b.recs[0].Seq[n-1])
			vAssert("C16.long.same-score", a.recs[1].Score == b.recs[1].Score)
		}
	}
}
