package fastaio

// VH_C15_wrap: --wrap w only re-breaks sequence lines at w characters.
func VH_C15_wrap() {
	L := vParam("L")
	N := vParam("N")
	w := 1 + vChoice("wrap", L+1)
	recs := make([]FastaRecord, N)
	for n := 0; n < N; n++ {
		s := make([]byte, L)
		for i := range s {
			s[i] = vNuc(vName("s", n, i), "ACGTN-")
		}
		recs[n] = FastaRecord{ID: "r" + string(rune('0'+n)), Seq: string(s), Idx: n}
	}
	run := func(wrap int) string {
		ch := make(chan FastaRecord, N)
		for _, r := range recs {
			ch <- r
		}
		close(ch)
		out := &vCapture{}
		cDone := make(chan bool, 1)
		cErr := make(chan error, 8)
		if wrap > 0 {
			WriteWrapAlignment(ch, out, wrap, cDone, cErr)
		} else {
			WriteAlignment(ch, out, cDone, cErr)
		}
		vAssert("C15.wrap.writer-done", len(cDone) == 1 && len(cErr) == 0)
		return string(out.buf)
	}
	plain := run(0)
	wrapped := run(w)
	// walk both: header lines identical; sequence = concatenation of lines, each of exactly w characters but the last (1..w)
	pi, wi := 0, 0
	for n := 0; n < N; n++ {
		// header
		for plain[pi] != '\n' {
			vAssert("C15.wrap.header-unchanged", wi < len(wrapped) && wrapped[wi] == plain[pi])
			pi++
			wi++
		}
		vAssert("C15.wrap.header-unchanged", wi < len(wrapped) && wrapped[wi] == '\n')
		pi++
		wi++
		// sequence
		lineLen := 0
		for k := 0; k < L; k++ {
			if lineLen == w {
				vAssert("C15.wrap.break-every-w-characters", wi < len(wrapped) && wrapped[wi] == '\n')
				wi++
				lineLen = 0
			}
			vAssert("C15.wrap.sequence-unchanged", wi < len(wrapped) && wrapped[wi] == plain[pi])
			pi++
			wi++
			lineLen++
		}
		vAssert("C15.wrap.line-end", wi < len(wrapped) && wrapped[wi] == '\n' && plain[pi] == '\n')
		pi++
		wi++
	}
	vAssert("C15.wrap.nothing-else-written", wi == len(wrapped) && pi == len(plain))
}

type vCapture struct {
	buf    []byte
	writes int
}

func (c *vCapture) Write(p []byte) (int, error) {
	c.buf = append(c.buf, p...)
	c.writes++
	return len(p), nil
}

// VH_C12_fasta_writers_arrival: WriteAlignment / WriteWrapAlignment restore input order for every arrival
// order of N records with distinct content.
func VH_C12_fasta_writers_arrival() {
	N := vParam("N")
	wrap := vParam("WRAP")
	recs := make([]FastaRecord, N)
	exp := ""
	for i := 0; i < N; i++ {
		seq := "ACGTA"[:3+i%3] + string(rune('A'+i))
		recs[i] = FastaRecord{ID: "r" + string(rune('0'+i)), Seq: seq, Idx: i}
		exp += ">r" + string(rune('0'+i)) + "\n"
		if wrap > 0 {
			for k := 0; k < len(seq); k += wrap {
				e := k + wrap
				if e > len(seq) {
					e = len(seq)
				}
				exp += seq[k:e] + "\n"
			}
		} else {
			exp += seq + "\n"
		}
	}
	used := make([]bool, N)
	ch := make(chan FastaRecord, N)
	for i := 0; i < N; i++ {
		c := vChoice(vName("arrive", i), N)
		vAssume(!used[c])
		used[c] = true
		ch <- recs[c]
	}
	close(ch)
	out := &vCapture{}
	cDone := make(chan bool, 1)
	cErr := make(chan error, 8)
	if wrap > 0 {
		WriteWrapAlignment(ch, out, wrap, cDone, cErr)
	} else {
		WriteAlignment(ch, out, cDone, cErr)
	}
	vAssert("C12.fasta.writer-restores-input-order", string(out.buf) == exp && len(cDone) == 1 && len(cErr) == 0)
}
