package closest

import (
	"math"

	"github.com/virus-evolution/gofasta/pkg/encoding"
	"github.com/virus-evolution/gofasta/pkg/fastaio"
)

const vSigma34 = "ACGTRYSWKMBDHVN-?acgtryswkmbdhvn"

// independent base-set table (A=1,C=2,G=4,T=8; N ? and soft '-' = any)
func vBaseSetTable() [256]byte {
	var t [256]byte
	for i := range t {
		t[i] = 255
	}
	set := func(cs string, v byte) {
		for i := 0; i < len(cs); i++ {
			t[cs[i]] = v
		}
	}
	set("Aa", 1)
	set("Cc", 2)
	set("Gg", 4)
	set("Tt", 8)
	set("Rr", 1|4)
	set("Yy", 2|8)
	set("Ss", 2|4)
	set("Ww", 1|8)
	set("Kk", 4|8)
	set("Mm", 1|2)
	set("Bb", 2|4|8)
	set("Dd", 1|4|8)
	set("Hh", 1|2|8)
	set("Vv", 1|2|4)
	set("Nn?-", 15)
	return t
}

func vUpperTable() [256]byte {
	var t [256]byte
	for i := range t {
		t[i] = byte(i)
		if i >= 'a' && i <= 'z' {
			t[i] = byte(i - 32)
		}
	}
	return t
}

// vSingle[s] is true when the base set s is exactly one base.
func vSingleTable() [256]bool {
	var t [256]bool
	t[1], t[2], t[4], t[8] = true, true, true, true
	return t
}

// vRecord builds the record the scoring reader would produce for this text (C16 decides that the
// reader really produces it): real encoding table, real score table, real CalculateBaseContent.
func vRecord(id string, idx int, txt []byte, withCounts bool) fastaio.EncodedFastaRecord {
	EA := encoding.MakeEncodingArray()
	SA := encoding.MakeEncodedScoreArray()
	seq := make([]byte, len(txt))
	var score int64
	for i := range txt {
		seq[i] = EA[txt[i]]
		score += SA[seq[i]]
	}
	r := fastaio.EncodedFastaRecord{ID: id, Description: id, Seq: seq, Idx: idx}
	if withCounts {
		r.Score = score
		r.CalculateBaseContent()
	}
	return r
}

func vSymText(prefix string, n int, w int) []byte {
	t := make([]byte, w)
	for i := range t {
		t[i] = vNuc(vName(prefix, n, i), vSigma34)
	}
	return t
}

func vSameFloat(a, b float64) bool {
	if a != a || b != b {
		return a != a && b != b
	}
	if a == b {
		return true
	}
	if math.IsInf(a, 0) || math.IsInf(b, 0) {
		return false
	}
	d := math.Abs(a - b)
	m := math.Abs(a)
	if math.Abs(b) > m {
		m = math.Abs(b)
	}
	return d <= 1e-9*m
}

func vDist(measure int, q, t fastaio.EncodedFastaRecord) float64 {
	switch measure {
	case 0:
		return rawDistance(q, t)
	case 1:
		return snpDistance(q, t)
	}
	return tn93Distance(q, t)
}

func vMeasureName(m int) string {
	switch m {
	case 0:
		return "raw"
	case 1:
		return "snp"
	}
	return "tn93"
}
