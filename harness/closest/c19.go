package closest

import (
	"bytes"
	"errors"
)

type vFailWriter struct {
	failAt int
	n      int
}

func (w *vFailWriter) Write(p []byte) (int, error) {
	w.n++
	if w.n == w.failAt {
		return 0, errors.New("write failed")
	}
	return len(p), nil
}

// VH_C19_closest: a failed write at any point (header, early row, last row) makes closest return an error.
func VH_C19_closest() {
	mode := vChoice("mode", 5) // 0 plain closest, 1 -n 2, 2 -n 2 --table, 3 -d 0 (some queries have no neighbour), 4 -d 0 --table
	measure := vMeasureName(vChoice("measure", 3))
	q := []byte(">q0\nACGT\n>q1\nACGA\n")
	t := []byte(">t0\nACGT\n>t1\nACGA\n>t2\nTCGT\n")
	run := func(w *vFailWriter) error {
		switch mode {
		case 0:
			return Closest(bytes.NewReader(q), bytes.NewReader(t), measure, w, 2)
		case 1:
			return ClosestN(2, -1.0, bytes.NewReader(q), bytes.NewReader(t), measure, w, false, 2)
		case 3, 4:
			// q0 has t0 at distance 0; the other queries have nothing within the distance: rows without neighbours,
			// in the middle and at the end of the output
			qd := []byte(">q0\nACGT\n>q1\nGGGG\n>q2\nACGT\n>q3\nCCCC\n")
			return ClosestN(0, 0.0, bytes.NewReader(qd), bytes.NewReader(t), measure, w, mode == 4, 2)
		}
		return ClosestN(2, -1.0, bytes.NewReader(q), bytes.NewReader(t), measure, w, true, 2)
	}
	w0 := &vFailWriter{}
	vAssert("C19.closest.no-failure-no-error", run(w0) == nil && w0.n > 0)
	k := 1 + vChoice("k", w0.n)
	if mode == 0 {
		vNote("writer:writeClosest")
	} else if mode == 1 || mode == 3 {
		vNote("writer:writeClosestN")
	} else {
		vNote("writer:writeClosestNTable")
	}
	vRaceDetect()
	vSchedExplore(vParam("DEV"))
	err := run(&vFailWriter{failAt: k})
	vAssert("C19.closest.failed-write-is-reported", err != nil)
}
