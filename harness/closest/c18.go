package closest

import "bytes"

// VH_C18_closest: invalid inputs make closest return an error.
func VH_C18_closest() {
	q := []byte(">q0\nACG\n>q1\nACT\n")
	t := []byte(">t0\nACG\n>t1\nGCG\n>t2\nACA\n")
	kind := vChoice("kind", 7)
	switch kind {
	case 0: // query and target of different widths
		if vBool("targetWider") {
			t = []byte(">t0\nACGT\n>t1\nGCGT\n")
		} else {
			t = []byte(">t0\nAC\n>t1\nGC\n")
		}
	case 1: // unequal rows in the target, at any record
		k := vChoice("badrecord", 3)
		rows := []string{"ACG", "GCG", "ACA"}
		if vBool("longer") {
			rows[k] = rows[k] + "A"
		} else {
			rows[k] = rows[k][:2]
		}
		t = []byte(">t0\n" + rows[0] + "\n>t1\n" + rows[1] + "\n>t2\n" + rows[2] + "\n")
	case 2: // invalid symbol in the target
		t = []byte(">t0\nACG\n>t1\nGXG\n")
	case 3: // empty target
		t = []byte{}
	case 4: // empty query
		q = []byte{}
	case 5: // unequal rows in the query
		q = []byte(">q0\nACG\n>q1\nAC\n")
	case 6: // target without header
		t = []byte("ACG\n>t1\nGCG\n")
	}
	vRaceDetect()
	vSchedExplore(vParam("DEV"))
	w := &vCapture{}
	var err error
	switch vChoice("mode", 2) {
	case 0:
		err = Closest(bytes.NewReader(q), bytes.NewReader(t), "snp", w, 2)
	case 1:
		err = ClosestN(2, -1.0, bytes.NewReader(q), bytes.NewReader(t), "raw", w, vBool("table"), 2)
	}
	vAssert("C18.closest.invalid-input-refused-with-error", err != nil)
}

type vCapture struct {
	buf    []byte
	writes int
}

func (c *vCapture) Write(p []byte) (int, error) {
	c.buf = append(c.buf, p...)
	c.writes++
	return len(p), nil
}
