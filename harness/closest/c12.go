package closest

import "bytes"

// VH_C12_closest_sched: closest output does not depend on the goroutine schedule (bounded deviations).
func VH_C12_closest_sched() {
	vNumCPU(vParam("NCPU"))
	mode := vChoice("mode", 3)
	q := []byte(">q0\nACGT\n>q1\nACGA\n")
	t := []byte(">t0\nACGT\n>t1\nACGA\n>t2\nTCGT\n")
	run := func(threads int) string {
		w := &vCapture{}
		var err error
		switch mode {
		case 0:
			err = Closest(bytes.NewReader(q), bytes.NewReader(t), "snp", w, threads)
		case 1:
			err = ClosestN(2, -1.0, bytes.NewReader(q), bytes.NewReader(t), "raw", w, false, threads)
		default:
			err = ClosestN(2, -1.0, bytes.NewReader(q), bytes.NewReader(t), "snp", w, true, threads)
		}
		vAssert("C12.closest.no-error", err == nil)
		return string(w.buf)
	}
	// any --threads value (0 = all processors) on 1..NCPU processors, under any explored schedule; the explored
	// run comes first, on fresh package state, the single-thread reference run follows
	threads := vChoice("threads", 4)
	vNumCPU(1 + vChoice("ncpu", vParam("NCPU")))
	vRaceDetect()
	vSchedExplore(vParam("DEV"))
	got := run(threads)
	vSchedExplore(0)
	vAssert("C12.closest.output-independent-of-schedule", got == run(1))
}
