package closest

import "bytes"

// VH_C12_closest_sched: closest output does not depend on the goroutine schedule (bounded deviations).
func VH_C12_closest_sched() {
	vNumCPU(vParam("NCPU"))
	mode := vChoice("mode", 3)
	q := []byte(">q0\nACGT\n>q1\nACGA\n")
	t := []byte(">t0\nACGT\n>t1\nACGA\n>t2\nTCGT\n")
	run := func() string {
		w := &vCapture{}
		var err error
		switch mode {
		case 0:
			err = Closest(bytes.NewReader(q), bytes.NewReader(t), "snp", w, 2)
		case 1:
			err = ClosestN(2, -1.0, bytes.NewReader(q), bytes.NewReader(t), "raw", w, false, 2)
		default:
			err = ClosestN(2, -1.0, bytes.NewReader(q), bytes.NewReader(t), "snp", w, true, 2)
		}
		vAssert("C12.closest.no-error", err == nil)
		return string(w.buf)
	}
	base := run()
	vSchedExplore(vParam("DEV"))
	vAssert("C12.closest.output-independent-of-schedule", run() == base)
}
