package closest

import (
	"strconv"

	"github.com/virus-evolution/gofasta/pkg/encoding"
	"github.com/virus-evolution/gofasta/pkg/fastaio"
)

// vBefore: a ranks strictly before b in the documented order (distance ascending, completeness
// descending, file position ascending). Distances are concrete on a path, scores symbolic.
func vBefore(da, db float64, sa, sb int64, ia, ib int) bool {
	if da < db {
		return true
	}
	if da > db {
		return false
	}
	return vOr(sa > sb, vAnd(sa == sb, ia < ib))
}

// VH_C06_closestN: findClosestN returns exactly the first K eligible targets in the documented order.
func VH_C06_closestN() {
	W := vParam("W")
	T := vParam("T")
	M := vParam("M")
	measure := vMeasureName(M)
	qt := vSymText("q", 0, W)
	query := vRecord("query", 5, qt, false)
	targets := make([]fastaio.EncodedFastaRecord, T)
	cIn := make(chan fastaio.EncodedFastaRecord, T)
	for n := 0; n < T; n++ {
		targets[n] = vRecord(vTargetName(n, T), n, vSymText("t", n, W), true)
		cIn <- targets[n]
	}
	close(cIn)
	K := 1 + vChoice("K", T+1)
	// -d: unset, or one of a few thresholds around the values that can occur
	var maxdist float64
	switch vChoice("D", 4) {
	case 0:
		maxdist = -1.0
	case 1:
		maxdist = 0
	case 2:
		if M == 1 {
			maxdist = 1
		} else {
			maxdist = 0.5
		}
	case 3:
		if M == 1 {
			maxdist = float64(W)
		} else {
			maxdist = 1
		}
	}
	cOut := make(chan catchmentStruct, 1)
	findClosestN(query, K, maxdist, measure, cIn, cOut)
	vAssert("C06.N.one-result", len(cOut) == 1)
	res := <-cOut
	vAssert("C06.N.query-identity", res.qname == "query" && res.qidx == 5)

	// the real distances (C07 decides that they equal their definitions)
	d := make([]float64, T)
	member := make([]bool, T)
	for n := 0; n < T; n++ {
		d[n] = vDist(M, query, targets[n])
	}
	nDef, nNaN := 0, 0
	elig := make([]bool, T)
	for n := 0; n < T; n++ {
		if d[n] != d[n] {
			if maxdist == -1.0 {
				nNaN++
			}
			continue
		}
		if maxdist == -1.0 || d[n] <= maxdist {
			elig[n] = true
			nDef++
		}
	}
	// members, by name
	R := make([]int, 0, T)
	for _, hit := range res.catchment {
		idx := -1
		for n := 0; n < T; n++ {
			if hit.tname == targets[n].ID {
				idx = n
			}
		}
		vAssert("C06.N.member-is-a-target", idx >= 0)
		if idx < 0 {
			return
		}
		vAssert("C06.N.no-duplicate-member", !member[idx])
		member[idx] = true
		R = append(R, idx)
		vAssert("C06.N.reported-distance-is-the-pair's", vSameFloat(hit.distance, d[idx]))
		if d[idx] == d[idx] {
			vAssert("C06.N.member-within-maxdist", elig[idx])
		} else {
			vAssert("C06.N.undefined-distance-not-within-maxdist", maxdist == -1.0)
		}
	}
	// size
	min := func(a, b int) int {
		if a < b {
			return a
		}
		return b
	}
	vAssert("C06.N.size-at-least", len(R) >= min(K, nDef))
	vAssert("C06.N.size-at-most", len(R) <= min(K, nDef+nNaN))
	// order among members; undefined distances never precede defined ones
	for i := 0; i+1 < len(R); i++ {
		a, b := R[i], R[i+1]
		if d[a] == d[a] && d[b] == d[b] {
			vAssert("C06.N.members-in-documented-order", vBefore(d[a], d[b], targets[a].Score, targets[b].Score, a, b))
		} else {
			vAssert("C06.N.undefined-after-defined", d[a] == d[a] || d[b] != d[b])
		}
	}
	// no eligible non-member ranks before a member; an undefined-distance member never displaces a defined one
	for n := 0; n < T; n++ {
		if member[n] || !elig[n] {
			continue
		}
		for _, m := range R {
			if d[m] != d[m] {
				vAssert("C06.N.undefined-never-displaces-defined", false)
			} else {
				vAssert("C06.N.no-better-target-left-out", vBefore(d[m], d[n], targets[m].Score, targets[n].Score, m, n))
			}
		}
	}
}

// VH_C06_closest: plain closest equals -n 1 and lists the SNPs and distance of the returned pair.
func VH_C06_closest() {
	W := vParam("W")
	T := vParam("T")
	M := vParam("M")
	measure := vMeasureName(M)
	BS := vBaseSetTable()
	UP := vUpperTable()
	_ = encoding.MakeDecodingArray
	qt := vSymText("q", 0, W)
	query := vRecord("query", 2, qt, false)
	targets := make([]fastaio.EncodedFastaRecord, T)
	ttxt := make([][]byte, T)
	cIn := make(chan fastaio.EncodedFastaRecord, T)
	cIn2 := make(chan fastaio.EncodedFastaRecord, T)
	for n := 0; n < T; n++ {
		ttxt[n] = vSymText("t", n, W)
		targets[n] = vRecord(vTargetName(n, T), n, ttxt[n], true)
		cIn <- targets[n]
		cIn2 <- targets[n]
	}
	close(cIn)
	close(cIn2)
	cOut := make(chan resultsStruct, 1)
	findClosest(query, measure, cIn, cOut)
	vAssert("C06.1.one-result", len(cOut) == 1)
	res := <-cOut
	vObserve("closest", res.tname, res.distance)
	vAssert("C06.1.query-identity", res.qname == "query" && res.qidx == 2)
	best := -1
	for n := 0; n < T; n++ {
		if res.tname == targets[n].ID {
			best = n
		}
	}
	vAssert("C06.1.result-is-a-target", best >= 0)
	if best < 0 {
		return
	}
	d := make([]float64, T)
	for n := 0; n < T; n++ {
		d[n] = vDist(M, query, targets[n])
	}
	vAssert("C06.1.reported-distance-is-the-pair's", vSameFloat(res.distance, d[best]))
	anyDefined := false
	for n := 0; n < T; n++ {
		if d[n] == d[n] {
			anyDefined = true
		}
	}
	if anyDefined {
		vAssert("C06.1.undefined-never-displaces-defined", d[best] == d[best])
	}
	for n := 0; n < T; n++ {
		if n == best || d[n] != d[n] || d[best] != d[best] {
			continue
		}
		vAssert("C06.1.no-better-target", vBefore(d[best], d[n], targets[best].Score, targets[n].Score, best, n))
	}
	// SNP list of the returned pair: <pos><query symbol><target symbol> at the columns with disjoint sets
	exp := ""
	first := true
	for i := 0; i < W; i++ {
		if BS[qt[i]]&BS[ttxt[best][i]] == 0 {
			if !first {
				exp += ";"
			}
			first = false
			exp += strconv.Itoa(i+1) + string([]byte{UP[qt[i]]}) + string([]byte{UP[ttxt[best][i]]})
		}
	}
	got := ""
	for i, s := range res.snps {
		if i > 0 {
			got += ";"
		}
		got += s
	}
	vAssert("C06.1.snps-are-the-pair's", got == exp)
	// equals -n 1
	cOutN := make(chan catchmentStruct, 1)
	findClosestN(query, 1, -1.0, measure, cIn2, cOutN)
	rn := <-cOutN
	vAssert("C06.1.equals-n-1", len(rn.catchment) == 1 && rn.catchment[0].tname == res.tname)
}


// VH_C06_many: more targets than any small bound (15), many ties: -n K for large K and -d alone. Targets are
// drawn from a menu of sequences at snp distance 0, 1 or 2 from the query, equally complete, so that file order
// decides most ranks; the expected list is the stable ordering by (distance, file position).
func VH_C06_many() {
	T := vParam("T")
	menu := []string{"AAAAAAAA", "CAAAAAAA", "CCAAAAAA"}
	query := vRecord("query", 0, []byte("AAAAAAAA"), false)
	targets := make([]fastaio.EncodedFastaRecord, T)
	dist := make([]int, T)
	cIn := make(chan fastaio.EncodedFastaRecord, T)
	for n := 0; n < T; n++ {
		// a fixed, unsorted distance pattern with a few positions left to the solver
		d := (n*7 + 3) % 3
		if n%5 == 2 {
			d = vChoice(vName("d", n), 3)
		}
		dist[n] = d
		targets[n] = vRecord("t"+strconv.Itoa(n), n, []byte(menu[d]), true)
		cIn <- targets[n]
	}
	close(cIn)
	K := T - vChoice("Kminus", 3)
	useD := vBool("onlyMaxDist")
	maxdist := -1.0
	if useD {
		maxdist = 1
		K = 1 << 40
	}
	cOut := make(chan catchmentStruct, 1)
	findClosestN(query, K, maxdist, "snp", cIn, cOut)
	res := <-cOut
	var exp []string
	for d := 0; d <= 2; d++ {
		if useD && d > 1 {
			break
		}
		for n := 0; n < T; n++ {
			if dist[n] == d {
				exp = append(exp, "t"+strconv.Itoa(n))
			}
		}
	}
	if len(exp) > K {
		exp = exp[:K]
	}
	vAssert("C06.many.size", len(res.catchment) == len(exp))
	if len(res.catchment) != len(exp) {
		return
	}
	for i := range exp {
		vAssert("C06.many.documented-order-with-many-ties", res.catchment[i].tname == exp[i])
	}
}

// vTargetName: targets are t0, t1, ...; the last one carries the query's own name (the same record name may
// well occur in the query file and in the target file, with different sequences).
func vTargetName(n, T int) string {
	if n == T-1 {
		return "query"
	}
	return "t" + strconv.Itoa(n)
}
