package closest

import "math"

// VH_C07_snp_raw: snp and raw distance equal their definitions on every pair of width W.
func VH_C07_snp_raw() {
	W := vParam("W")
	BS := vBaseSetTable()
	SG := vSingleTable()
	qt := vSymText("q", 0, W)
	tt := vSymText("t", 0, W)
	q := vRecord("q", 0, qt, false)
	t := vRecord("t", 0, tt, true)

	snp := snpDistance(q, t)
	raw := rawDistance(q, t)
	snpR := snpDistance(t, q)
	rawR := rawDistance(t, q)

	// definition
	ld, ls := 0, 0
	for i := 0; i < W; i++ {
		a, b := BS[qt[i]], BS[tt[i]]
		if a&b == 0 {
			ld++
		}
		if vAnd(SG[a], a == b) {
			ls++
		}
	}
	vAssert("C07.snp-equals-definition", snp == float64(ld))
	want := float64(ld) / float64(ld+ls)
	vAssert("C07.raw-equals-definition", vSameFloat(raw, want))
	vAssert("C07.snp-symmetric", snp == snpR)
	vAssert("C07.raw-symmetric", vSameFloat(raw, rawR))
	if ld+ls > 0 {
		vAssert("C07.raw-in-unit-interval", raw >= 0 && raw <= 1)
	} else {
		vAssert("C07.raw-undefined-is-NaN", raw != raw)
	}
	// identical unambiguous sequences are at distance 0
	same := true
	for i := 0; i < W; i++ {
		same = vAnd(same, vAnd(SG[BS[qt[i]]], BS[qt[i]] == BS[tt[i]]))
	}
	if same {
		vAssert("C07.identical-zero", snp == 0 && raw == 0)
	}
}

// VH_C07_tn93: tn93Distance equals Tamura & Nei (1993) eq. 7 on the jointly resolved columns with base
// frequencies from the target's A/C/G/T counts (queries come from the list reader, which does not count).
//
// The formula's logarithms are only defined when the target contains all four bases, so the first P
// target columns are an arbitrary arrangement of distinct bases from ACGT (P=4 makes eq. 7 defined);
// the remaining columns and the whole query are arbitrary symbols.
func VH_C07_tn93() {
	W := vParam("W")
	P := vParam("P")
	BS := vBaseSetTable()
	SG := vSingleTable()
	qt := vSymText("q", 0, W)
	if vParam("QPREFIX") == 1 {
		// cheaper variant: the query's first P symbols range over ACGTN only
		for i := 0; i < P && i < W; i++ {
			vAssume(vOr(vOr(qt[i] == 'A', qt[i] == 'C'), vOr(vOr(qt[i] == 'G', qt[i] == 'T'), qt[i] == 'N')))
		}
	}
	tt := make([]byte, W)
	for i := 0; i < W; i++ {
		if i < P {
			tt[i] = vNuc(vName("t", 0, i), "ACGT")
			for j := 0; j < i; j++ {
				vAssume(tt[i] != tt[j])
			}
			if vParam("FIX") == 1 {
				vAssume(tt[i] == "ACGT"[i])
			}
		} else {
			tt[i] = vNuc(vName("t", 0, i), vSigma34)
		}
	}
	q := vRecord("q", 0, qt, false)
	t := vRecord("t", 0, tt, true)

	got := tn93Distance(q, t)

	// independent transcription of eq. 7
	nA, nC, nG, nT := 0, 0, 0, 0
	for i := 0; i < W; i++ {
		switch BS[tt[i]] {
		case 1:
			nA++
		case 2:
			nC++
		case 4:
			nG++
		case 8:
			nT++
		}
	}
	p1, p2, tv, l := 0, 0, 0, 0
	for i := 0; i < W; i++ {
		a, b := BS[qt[i]], BS[tt[i]]
		if vAnd(SG[a], SG[b]) {
			l++
			if a != b {
				switch a | b {
				case 1 | 4:
					p1++
				case 2 | 8:
					p2++
				default:
					tv++
				}
			}
		}
	}
	n := float64(nA + nC + nG + nT)
	gA, gC, gG, gT := float64(nA)/n, float64(nC)/n, float64(nG)/n, float64(nT)/n
	gR, gY := gA+gG, gC+gT
	P1, P2, Q := float64(p1)/float64(l), float64(p2)/float64(l), float64(tv)/float64(l)
	want := -(2*gA*gG/gR)*math.Log(1-gR/(2*gA*gG)*P1-Q/(2*gR)) -
		(2*gT*gC/gY)*math.Log(1-gY/(2*gT*gC)*P2-Q/(2*gY)) -
		2*(gR*gY-gA*gG*gY/gR-gT*gC*gR/gY)*math.Log(1-Q/(2*gR*gY))
	defined := want == want && !math.IsInf(want, 0)
	if defined {
		vAssert("C07.tn93-equals-eq7", vSameFloat(got, want))
	} else {
		vAssert("C07.tn93-undefined-not-finite", got != got || math.IsInf(got, 0))
	}
	if defined && p1+p2+tv == 0 {
		vAssert("C07.tn93-identical-zero", got == 0)
	}
}
