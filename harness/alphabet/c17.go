package alphabet

import "github.com/virus-evolution/gofasta/pkg/encoding"

const vIUPAC15 = "ACGTRYSWKMBDHVN"
const vSigma32 = "ACGTRYSWKMBDHVN-?acgtryswkmbdhvn"

// independent base-set table (A=1,C=2,G=4,T=8); 255 = not a nucleotide symbol
func vBaseSetTable() [256]byte {
	var t [256]byte
	for i := range t {
		t[i] = 255
	}
	set := func(cs string, v byte) {
		for i := 0; i < len(cs); i++ {
			t[cs[i]] = v
		}
	}
	set("Aa", 1)
	set("Cc", 2)
	set("Gg", 4)
	set("Tt", 8)
	set("Rr", 1|4)
	set("Yy", 2|8)
	set("Ss", 2|4)
	set("Ww", 1|8)
	set("Kk", 4|8)
	set("Mm", 1|2)
	set("Bb", 2|4|8)
	set("Dd", 1|4|8)
	set("Hh", 1|2|8)
	set("Vv", 1|2|4)
	set("Nn?-", 15)
	return t
}

// the standard genetic code, independently written in TCAG order
const vStdAA = "FFLLSSSSYY**CC*WLLLLPPPPHHQQRRRRIIIMTTTTNNKKSSRRVVVVAAAADDEEGGGG"
const vTCAG = "TCAG"

func vBit(b byte) byte {
	switch b {
	case 'A':
		return 1
	case 'C':
		return 2
	case 'G':
		return 4
	}
	return 8
}

// VH_C17_codon: soundness and completeness of the codon dictionary and Translate over all 15^3 IUPAC codons.
func VH_C17_codon() {
	BS := vBaseSetTable()
	c0 := vNuc("c0", vIUPAC15)
	c1 := vNuc("c1", vIUPAC15)
	c2 := vNuc("c2", vIUPAC15)
	codon := string([]byte{c0, c1, c2})
	CD := MakeCodonDict()
	t, ok := CD[codon]
	var a byte
	if ok {
		vAssert("C17.dict-value-is-one-letter", len(t) == 1)
		a = t[0]
	} else {
		a = vByte("anyAA") // arbitrary candidate product
	}
	// allEq: every A/C/G/T expansion of the codon has product a under the standard code
	allEq := true
	for i := 0; i < 4; i++ {
		for j := 0; j < 4; j++ {
			for k := 0; k < 4; k++ {
				member := vAnd(vAnd(BS[c0]&vBit(vTCAG[i]) != 0, BS[c1]&vBit(vTCAG[j]) != 0), BS[c2]&vBit(vTCAG[k]) != 0)
				allEq = vAnd(allEq, vImplies(member, vStdAA[16*i+4*j+k] == a))
			}
		}
	}
	if ok {
		vAssert("C17.codon-sound", allEq)
	} else {
		vAssert("C17.codon-complete", !allEq)
	}
	// Translate agrees with the dictionary: X / error exactly when absent
	strict := vBool("strict")
	tr, err := Translate(codon, strict)
	if ok {
		vAssert("C17.translate-present", vAnd(err == nil, tr == t))
	} else if strict {
		vAssert("C17.translate-strict-error", err != nil)
	} else {
		vAssert("C17.translate-X", vAnd(err == nil, tr == "X"))
	}
}

// VH_C17_translate_seq: Translate maps codon by codon, in order, and rejects lengths not divisible by 3.
func VH_C17_translate_seq() {
	n := vParam("L")
	s := make([]byte, n)
	for i := range s {
		s[i] = vNuc(vName("s", i), vIUPAC15)
	}
	tr, err := Translate(string(s), false)
	if n%3 != 0 {
		vAssert("C17.translate-mod3-error", err != nil)
		return
	}
	// strict mode: an error exactly when some codon is untranslatable, else the same string
	{
		CDs := MakeCodonDict()
		all := true
		for c := 0; c < n/3; c++ {
			if _, ok := CDs[string(s[3*c:3*c+3])]; !ok {
				all = false
			}
		}
		trS, errS := Translate(string(s), true)
		if all {
			vAssert("C17.translate-strict-ok", errS == nil && trS == tr)
		} else {
			vAssert("C17.translate-strict-error-and-no-partial-result", errS != nil && trS == "")
		}
	}
	vAssert("C17.translate-seq-noerr", err == nil)
	vAssert("C17.translate-seq-len", len(tr) == n/3)
	CD := MakeCodonDict()
	for c := 0; c < n/3; c++ {
		t, ok := CD[string(s[3*c:3*c+3])]
		if ok {
			vAssert("C17.translate-seq-codon", tr[c] == t[0])
		} else {
			vAssert("C17.translate-seq-X", tr[c] == 'X')
		}
	}
}

// VH_C17_complement: complement tables denote base-wise complements, preserve case, are involutions;
// the encoded table commutes with encoding.
func VH_C17_complement() {
	BS := vBaseSetTable()
	// complement of a base set: swap A<->T (1<->8) and C<->G (2<->4)
	var CB [16]byte
	for s := 0; s < 16; s++ {
		var r byte
		if s&1 != 0 {
			r |= 8
		}
		if s&8 != 0 {
			r |= 1
		}
		if s&2 != 0 {
			r |= 4
		}
		if s&4 != 0 {
			r |= 2
		}
		CB[s] = r
	}
	x := vNuc("x", vSigma32)
	CA := MakeCompArray()
	y := CA[x]
	vAssert("C17.comp-is-symbol", BS[y] != 255)
	vAssert("C17.comp-set", BS[y] == CB[BS[x]])
	isLower := vAnd(x >= 'a', x <= 'z')
	isUpper := vAnd(x >= 'A', x <= 'Z')
	vAssert("C17.comp-case", vAnd(vImplies(isLower, vAnd(y >= 'a', y <= 'z')), vImplies(isUpper, vAnd(y >= 'A', y <= 'Z'))))
	vAssert("C17.comp-gap-question", vAnd(vImplies(x == '-', y == '-'), vImplies(x == '?', y == '?')))
	vAssert("C17.comp-involution", CA[y] == x)
	// a byte outside the alphabet has no complement (maps to 0)
	z := vByte("z")
	vAssert("C17.comp-outside", vImplies(BS[z] == 255, CA[z] == 0))
	// encoded form commutes
	EA := encoding.MakeEncodingArray()
	ECA := MakeEncodedCompArray()
	vAssert("C17.encoded-comp-commutes", ECA[EA[x]] == EA[y])
	vAssert("C17.encoded-comp-involution", ECA[ECA[EA[x]]] == EA[x])
	// decode(encode(x)) is the upper-case symbol
	DA := encoding.MakeDecodingArray()
	up := x
	if isLower {
		up = x - 32
	}
	d := DA[EA[x]]
	vAssert("C17.decode-encode", vAnd(len(d) == 1, d == string([]byte{up})))
}

// VH_C17_revcomp: string complement / reverse complement on sequences of length L.
func VH_C17_revcomp() {
	n := vParam("L")
	CA := MakeCompArray()
	s := make([]byte, n)
	for i := range s {
		s[i] = vNuc(vName("s", i), vSigma32)
	}
	c := Complement(string(s))
	rc := ReverseComplement(string(s))
	vAssert("C17.revcomp-len", vAnd(len(c) == n, len(rc) == n))
	for i := 0; i < n; i++ {
		vAssert("C17.complement-pointwise", c[i] == CA[s[i]])
		vAssert("C17.revcomp-pointwise", rc[i] == CA[s[n-1-i]])
	}
	vAssert("C17.revcomp-twice-identity", ReverseComplement(rc) == string(s))
	vAssert("C17.complement-twice-identity", Complement(c) == string(s))
}
