package updown

import "bytes"

func vFasta(ids []string, txts [][]byte) []byte {
	var b []byte
	for i := range ids {
		b = append(b, '>')
		b = append(b, []byte(ids[i])...)
		b = append(b, '\n')
		b = append(b, txts[i]...)
		b = append(b, '\n')
	}
	return b
}

// VH_C09_formats: the whole TopRanking command function gives byte-identical output for the four
// combinations of CSV / FASTA query and target input, the CSVs being produced by the real List().
func VH_C09_formats() {
	W := vParam("W")
	M := vParam("M")
	N := vParam("N")
	table := vParam("TABLE") == 1
	alpha := "ACGTN-acgtnRy"
	if vParam("SMALL") == 1 {
		alpha = "ACN"
	}
	ref := vSymText("r", 0, W, "ACGT")
	refFile := vFasta([]string{"ref"}, [][]byte{ref})
	qids := make([]string, M)
	qtx := make([][]byte, M)
	for i := 0; i < M; i++ {
		qids[i] = "q" + vItoa(i)
		qtx[i] = vSymText("q", i, W, alpha)
	}
	tids := make([]string, N)
	ttx := make([][]byte, N)
	for i := 0; i < N; i++ {
		tids[i] = "t" + vItoa(i)
		ttx[i] = vSymText("t", i, W, alpha)
	}
	qFasta := vFasta(qids, qtx)
	tFasta := vFasta(tids, ttx)
	qCSV := &vCapture{}
	tCSV := &vCapture{}
	vAssert("C09.list-query-ok", List(bytes.NewReader(refFile), bytes.NewReader(qFasta), qCSV) == nil)
	vAssert("C09.list-target-ok", List(bytes.NewReader(refFile), bytes.NewReader(tFasta), tCSV) == nil)

	// option set: by default --dist-all W+1; with OPTS=1 one of several --size-*/--no-fill/--dist-push/threshold/
	// --ignore combinations (sizetotal, sizeup, sizedown, sizeside, sizesame, distall, distpush)
	opt := [7]int{0, 0, 0, 0, 0, W + 1, 0}
	thrPair, thrTarget, nofill := float32(0.1), 10000, false
	var ignore []string
	if vParam("OPTS") == 1 {
		switch vChoice("options", 6) {
		case 1:
			opt = [7]int{2, 0, 0, 0, 0, 0, 0}
		case 2:
			opt = [7]int{0, 1, 1, 0, 1, 0, 0}
			nofill = true
		case 3:
			opt = [7]int{0, 0, 0, 0, 0, 0, 1}
		case 4:
			thrPair, thrTarget = 0.5, 0
		case 5:
			ignore = []string{"t0"}
		}
	}
	run := func(qtype, ttype string) (string, error) {
		var qr, tr *bytes.Reader
		if qtype == "csv" {
			qr = bytes.NewReader(qCSV.buf)
		} else {
			qr = bytes.NewReader(qFasta)
		}
		if ttype == "csv" {
			tr = bytes.NewReader(tCSV.buf)
		} else {
			tr = bytes.NewReader(tFasta)
		}
		out := &vCapture{}
		err := TopRanking(qr, tr, bytes.NewReader(refFile), out, table, qtype, ttype, ignore,
			opt[0], opt[1], opt[2], opt[3], opt[4], opt[5], 0, 0, 0, thrPair, thrTarget, nofill, opt[6])
		return string(out.buf), err
	}
	ff, e1 := run("fasta", "fasta")
	vAssert("C09.fasta-fasta-ok", e1 == nil)
	fc, e2 := run("fasta", "csv")
	vAssert("C09.fasta-csv-ok", e2 == nil)
	cf, e3 := run("csv", "fasta")
	vAssert("C09.csv-fasta-ok", e3 == nil)
	cc, e4 := run("csv", "csv")
	vAssert("C09.csv-csv-ok", e4 == nil)
	vAssert("C09.target-format-irrelevant", fc == ff)
	vAssert("C09.query-format-irrelevant", cf == ff)
	vAssert("C09.both-csv-same-as-both-fasta", cc == ff)
	if !table {
		// one row per query, in query-file order
		lines := 0
		for i := 0; i < len(ff); i++ {
			if ff[i] == '\n' {
				lines++
			}
		}
		vAssert("C09.one-row-per-query", lines == M+1)
		pos := 0
		for pos < len(ff) && ff[pos] != '\n' {
			pos++
		}
		pos++
		for i := 0; i < M; i++ {
			want := qids[i] + ","
			ok := pos+len(want) <= len(ff) && ff[pos:pos+len(want)] == want
			vAssert("C09.rows-in-query-order", ok)
			for pos < len(ff) && ff[pos] != '\n' {
				pos++
			}
			pos++
		}
	}
}

// VH_C09_wide: the four CSV/FASTA combinations on alignments of 103 columns, so that SNP positions and ambiguity
// ranges have one, two and three digits: one query and two targets that equal the reference except for fixed
// differences at columns 5, 50-51 and 77, and a symbolic two-column window over "ACN" placed at the digit-count
// boundaries (columns 8-12 and 98-103).
func VH_C09_wide() {
	W := 103
	ref := make([]byte, W)
	for i := range ref {
		ref[i] = 'A'
	}
	mk := func() []byte { return append([]byte{}, ref...) }
	q, t0, t1 := mk(), mk(), mk()
	q[4], t0[4] = 'C', 'C'
	t1[49], t1[50] = 'N', 'N'
	q[76], t1[76] = 'G', 'T'
	off := []int{7, 8, 9, 10, 97, 98, 99, 100, 101}[vChoice("offset", 9)]
	for i := 0; i < 2; i++ {
		q[off+i] = vNuc(vName("q", i), "ACN")
		t0[off+i] = vNuc(vName("t0", i), "ACN")
		t1[off+i] = vNuc(vName("t1", i), "ACN")
	}
	refFile := vFasta([]string{"ref"}, [][]byte{ref})
	qFasta := vFasta([]string{"q0"}, [][]byte{q})
	tFasta := vFasta([]string{"t0", "t1"}, [][]byte{t0, t1})
	qCSV, tCSV := &vCapture{}, &vCapture{}
	vAssert("C09.wide.list-ok", List(bytes.NewReader(refFile), bytes.NewReader(qFasta), qCSV) == nil && List(bytes.NewReader(refFile), bytes.NewReader(tFasta), tCSV) == nil)
	table := vBool("table")
	run := func(qtype, ttype string) (string, error) {
		qr, tr := bytes.NewReader(qFasta), bytes.NewReader(tFasta)
		if qtype == "csv" {
			qr = bytes.NewReader(qCSV.buf)
		}
		if ttype == "csv" {
			tr = bytes.NewReader(tCSV.buf)
		}
		out := &vCapture{}
		err := TopRanking(qr, tr, bytes.NewReader(refFile), out, table, qtype, ttype, nil, 0, 0, 0, 0, 0, 9, 0, 0, 0, 0.5, 10000, false, 0)
		return string(out.buf), err
	}
	ff, e1 := run("fasta", "fasta")
	fc, e2 := run("fasta", "csv")
	cf, e3 := run("csv", "fasta")
	cc, e4 := run("csv", "csv")
	vAssert("C09.wide.runs-ok", e1 == nil && e2 == nil && e3 == nil && e4 == nil && len(ff) > 0)
	vAssert("C09.wide.target-format-irrelevant", fc == ff)
	vAssert("C09.wide.query-format-irrelevant", cf == ff)
	vAssert("C09.wide.both-csv-same-as-both-fasta", cc == ff)
}
