package updown

import "bytes"

func vFasta(ids []string, txts [][]byte) []byte {
	var b []byte
	for i := range ids {
		b = append(b, '>')
		b = append(b, []byte(ids[i])...)
		b = append(b, '\n')
		b = append(b, txts[i]...)
		b = append(b, '\n')
	}
	return b
}

// VH_C09_formats: the whole TopRanking command function gives byte-identical output for the four
// combinations of CSV / FASTA query and target input, the CSVs being produced by the real List().
func VH_C09_formats() {
	W := vParam("W")
	M := vParam("M")
	N := vParam("N")
	table := vParam("TABLE") == 1
	alpha := "ACGTN-acgtnRy"
	if vParam("SMALL") == 1 {
		alpha = "ACN"
	}
	ref := vSymText("r", 0, W, "ACGT")
	refFile := vFasta([]string{"ref"}, [][]byte{ref})
	qids := make([]string, M)
	qtx := make([][]byte, M)
	for i := 0; i < M; i++ {
		qids[i] = "q" + vItoa(i)
		qtx[i] = vSymText("q", i, W, alpha)
	}
	tids := make([]string, N)
	ttx := make([][]byte, N)
	for i := 0; i < N; i++ {
		tids[i] = "t" + vItoa(i)
		ttx[i] = vSymText("t", i, W, alpha)
	}
	qFasta := vFasta(qids, qtx)
	tFasta := vFasta(tids, ttx)
	qCSV := &vCapture{}
	tCSV := &vCapture{}
	vAssert("C09.list-query-ok", List(bytes.NewReader(refFile), bytes.NewReader(qFasta), qCSV) == nil)
	vAssert("C09.list-target-ok", List(bytes.NewReader(refFile), bytes.NewReader(tFasta), tCSV) == nil)

	run := func(qtype, ttype string) (string, error) {
		var qr, tr *bytes.Reader
		if qtype == "csv" {
			qr = bytes.NewReader(qCSV.buf)
		} else {
			qr = bytes.NewReader(qFasta)
		}
		if ttype == "csv" {
			tr = bytes.NewReader(tCSV.buf)
		} else {
			tr = bytes.NewReader(tFasta)
		}
		out := &vCapture{}
		err := TopRanking(qr, tr, bytes.NewReader(refFile), out, table, qtype, ttype, nil,
			0, 0, 0, 0, 0, W+1, 0, 0, 0, 0.1, 10000, false, 0)
		return string(out.buf), err
	}
	ff, e1 := run("fasta", "fasta")
	vAssert("C09.fasta-fasta-ok", e1 == nil)
	fc, e2 := run("fasta", "csv")
	vAssert("C09.fasta-csv-ok", e2 == nil)
	cf, e3 := run("csv", "fasta")
	vAssert("C09.csv-fasta-ok", e3 == nil)
	cc, e4 := run("csv", "csv")
	vAssert("C09.csv-csv-ok", e4 == nil)
	vAssert("C09.target-format-irrelevant", fc == ff)
	vAssert("C09.query-format-irrelevant", cf == ff)
	vAssert("C09.both-csv-same-as-both-fasta", cc == ff)
	if !table {
		// one row per query, in query-file order
		lines := 0
		for i := 0; i < len(ff); i++ {
			if ff[i] == '\n' {
				lines++
			}
		}
		vAssert("C09.one-row-per-query", lines == M+1)
		pos := 0
		for pos < len(ff) && ff[pos] != '\n' {
			pos++
		}
		pos++
		for i := 0; i < M; i++ {
			want := qids[i] + ","
			ok := pos+len(want) <= len(ff) && ff[pos:pos+len(want)] == want
			vAssert("C09.rows-in-query-order", ok)
			for pos < len(ff) && ff[pos] != '\n' {
				pos++
			}
			pos++
		}
	}
}
