package updown

import "math"

// VH_C08_whichWay: pairwise classification — bin and SNP distance equal the definition.
func VH_C08_whichWay() {
	W := vParam("W")
	BS := vBaseSetTable()
	SG := vSingleTable()
	ref := vSymText("r", 0, W, "ACGT")
	qt := vSymText("q", 0, W, vSigma34)
	tt := vSymText("t", 0, W, vSigma34)
	ls := vLines(ref, [][]byte{qt, tt}, []string{"q", "t"})
	var thresh float32
	switch vChoice("TH", 4) {
	case 0:
		thresh = 0
	case 1:
		thresh = 0.1
	case 2:
		thresh = 0.5
	case 3:
		thresh = 1
	}
	dir, dist := whichWay(ls[0], ls[1], thresh)

	// definition, column by column
	qOnly, shared, tOnly, amb, d := 0, 0, 0, 0, 0
	for i := 0; i < W; i++ {
		r, a, b := BS[ref[i]], BS[qt[i]], BS[tt[i]]
		qs := vAnd(SG[a], a != r) // query carries a resolved difference from the reference
		ts := vAnd(SG[b], b != r)
		if qs {
			if !SG[b] {
				amb++
			} else if a == b {
				shared++
			} else {
				qOnly++
			}
		}
		if ts {
			if !SG[a] {
				amb++
			} else if a != b {
				tOnly++
			}
		}
		if vAnd(vAnd(SG[a], SG[b]), a != b) {
			d++
		}
	}
	sum := qOnly + shared + tOnly + amb
	if float32(amb)/float32(sum) > thresh {
		vAssert("C08.a.threshold-fail-gives-minus-one", dist == -1)
		return
	}
	vAssert("C08.a.distance-is-resolved-differences", dist == d)
	exp := 0
	switch {
	case qOnly > 0 && tOnly > 0:
		exp = 3
	case qOnly > 0:
		exp = 1
	case tOnly > 0:
		exp = 2
	}
	vAssert("C08.a.bin", dir == exp)
}

// VH_C08_balance: bin sizes after balancing, for arbitrary requested and available sizes.
func VH_C08_balance() {
	MAX := vParam("MAX")
	var ideal, obs [4]int
	for i := 0; i < 4; i++ {
		ideal[i] = vRange(vName("ideal", i), 0, MAX)
		obs[i] = vRange(vName("obs", i), 0, MAX)
	}
	nofill := vBool("nofill")
	total := ideal[0] + ideal[1] + ideal[2] + ideal[3]
	size := balance(total, ideal, obs, nofill)
	sum := size[0] + size[1] + size[2] + size[3]
	sumObs := obs[0] + obs[1] + obs[2] + obs[3]
	for i := 0; i < 4; i++ {
		vAssert("C08.c.size-within-supply", vAnd(size[i] >= 0, size[i] <= obs[i]))
	}
	vAssert("C08.c.total-not-exceeded", sum <= total)
	allEnough := vAnd(vAnd(obs[0] >= ideal[0], obs[1] >= ideal[1]), vAnd(obs[2] >= ideal[2], obs[3] >= ideal[3]))
	if allEnough {
		for i := 0; i < 4; i++ {
			vAssert("C08.c.enough-supply-gives-requested", size[i] == ideal[i])
		}
		return
	}
	if nofill {
		for i := 0; i < 4; i++ {
			vAssert("C08.c.nofill-is-min", size[i] == vIte(obs[i] < ideal[i], obs[i], ideal[i]))
		}
		return
	}
	// fill: total is min(requested total, supply)
	vAssert("C08.c.fill-total", sum == vIte(sumObs < total, sumObs, total))
	for i := 0; i < 4; i++ {
		vAssert("C08.c.fill-at-least-min", size[i] >= vIte(obs[i] < ideal[i], obs[i], ideal[i]))
		// a bin without spare candidates gets nothing extra
		vAssert("C08.c.fill-no-extra-without-spare", vImplies(obs[i] <= ideal[i], size[i] == vIte(obs[i] < ideal[i], obs[i], ideal[i])))
	}
	// evenness: two bins with spare candidates differ in their extras by at most one, unless the smaller is exhausted
	for i := 0; i < 4; i++ {
		for j := 0; j < 4; j++ {
			if i == j {
				continue
			}
			both := vAnd(obs[i] > ideal[i], obs[j] > ideal[j])
			ei := size[i] - ideal[i]
			ej := size[j] - ideal[j]
			vAssert("C08.c.fill-even", vImplies(both, vOr(ei <= ej+1, size[j] == obs[j])))
		}
	}
}

// VH_C08_checkArgs: option validation and size/dist arrays.
func VH_C08_checkArgs() {
	st := vRange("sizetotal", 0, 9)
	su := vRange("sizeup", -1, 3)
	sd := vRange("sizedown", -1, 3)
	ss := vRange("sizeside", -1, 3)
	sm := vRange("sizesame", -1, 3)
	da := vRange("distall", 0, 3)
	du := vRange("distup", 0, 3)
	dd := vRange("distdown", 0, 3)
	ds := vRange("distside", 0, 3)
	dp := vRange("distpush", 0, 2)
	sizes, dists, err := checkArgs(st, su, sd, ss, sm, da, du, dd, ds, dp)
	noOption := vAnd(vAnd(vAnd(st == 0, vAnd(su == 0, sd == 0)), vAnd(vAnd(ss == 0, sm == 0), dp == 0)), vAnd(vAnd(da == 0, du == 0), vAnd(dd == 0, ds == 0)))
	if noOption {
		vAssert("C08.args.no-option-is-error", err != nil)
		return
	}
	if err != nil {
		// the only other documented refusal: everything combined with --dist-push
		vAssert("C08.args.other-error-only-for-push-combination", vAnd(dp > 0, st != 0))
		return
	}
	if st > 0 {
		vAssert("C08.args.size-total-split", sizes[0]+sizes[1]+sizes[2]+sizes[3] == st && sizes[1] == st/4 && sizes[2] == st/4 && sizes[3] == st/4)
	} else if vOr(vOr(su != 0, sd != 0), vOr(ss != 0, sm != 0)) {
		vAssert("C08.args.sizes-as-given", vAnd(vAnd(sizes[0] == vIte(sm == -1, math.MaxInt32, sm), sizes[1] == vIte(su == -1, math.MaxInt32, su)), vAnd(sizes[2] == vIte(sd == -1, math.MaxInt32, sd), sizes[3] == vIte(ss == -1, math.MaxInt32, ss))))
	} else {
		vAssert("C08.args.sizes-unlimited", sizes[0] == math.MaxInt32 && sizes[1] == math.MaxInt32 && sizes[2] == math.MaxInt32 && sizes[3] == math.MaxInt32)
	}
	if da > 0 {
		vAssert("C08.args.dist-all", dists[0] == 0 && dists[1] == da && dists[2] == da && dists[3] == da)
	} else if vOr(vOr(du != 0, dd != 0), ds != 0) {
		vAssert("C08.args.dist-each", vAnd(vAnd(dists[0] == 0, dists[1] == du), vAnd(dists[2] == dd, dists[3] == ds)))
	} else {
		vAssert("C08.args.dist-unlimited", dists[1] == math.MaxInt32 && dists[2] == math.MaxInt32 && dists[3] == math.MaxInt32)
	}
}
