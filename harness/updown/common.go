package updown

import (
	"strconv"

	"github.com/virus-evolution/gofasta/pkg/encoding"
	"github.com/virus-evolution/gofasta/pkg/fastaio"
)

const vSigma34 = "ACGTRYSWKMBDHVN-?acgtryswkmbdhvn"

func vBaseSetTable() [256]byte {
	var t [256]byte
	for i := range t {
		t[i] = 255
	}
	set := func(cs string, v byte) {
		for i := 0; i < len(cs); i++ {
			t[cs[i]] = v
		}
	}
	set("Aa", 1)
	set("Cc", 2)
	set("Gg", 4)
	set("Tt", 8)
	set("Rr", 1|4)
	set("Yy", 2|8)
	set("Ss", 2|4)
	set("Ww", 1|8)
	set("Kk", 4|8)
	set("Mm", 1|2)
	set("Bb", 2|4|8)
	set("Dd", 1|4|8)
	set("Hh", 1|2|8)
	set("Vv", 1|2|4)
	set("Nn?-", 15)
	return t
}

func vUpperTable() [256]byte {
	var t [256]byte
	for i := range t {
		t[i] = byte(i)
		if i >= 'a' && i <= 'z' {
			t[i] = byte(i - 32)
		}
	}
	return t
}

func vSingleTable() [256]bool {
	var t [256]bool
	t[1], t[2], t[4], t[8] = true, true, true, true
	return t
}

func vEncode(txt []byte) []byte {
	EA := encoding.MakeEncodingArray()
	seq := make([]byte, len(txt))
	for i := range txt {
		seq[i] = EA[txt[i]]
	}
	return seq
}

func vSymText(prefix string, n int, w int, alphabet string) []byte {
	t := make([]byte, w)
	for i := range t {
		t[i] = vNuc(vName(prefix, n, i), alphabet)
	}
	return t
}

// vLines runs the real getLines over the given texts (one record each, in order).
func vLines(ref []byte, txts [][]byte, ids []string) []updownLine {
	n := len(txts)
	cFR := make(chan fastaio.EncodedFastaRecord, n)
	for i := range txts {
		cFR <- fastaio.EncodedFastaRecord{ID: ids[i], Seq: vEncode(txts[i]), Idx: i}
	}
	close(cFR)
	cU := make(chan updownLine, n)
	cErr := make(chan error, n)
	getLines(vEncode(ref), cFR, cU, cErr)
	vAssert("getLines.no-error", len(cErr) == 0)
	vAssert("getLines.one-line-per-record", len(cU) == n)
	out := make([]updownLine, 0, n)
	for i := 0; i < n; i++ {
		out = append(out, <-cU)
	}
	return out
}

func vItoa(i int) string { return strconv.Itoa(i) }

type vCapture struct {
	buf    []byte
	writes int
}

func (c *vCapture) Write(p []byte) (int, error) {
	c.buf = append(c.buf, p...)
	c.writes++
	return len(p), nil
}
