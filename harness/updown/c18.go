package updown

import "bytes"

// VH_C18_updown: invalid inputs make updown list / topranking return an error.
func VH_C18_updown() {
	ref := []byte(">ref\nACG\n")
	q := []byte(">q0\nACT\n>q1\nGCG\n")
	t := []byte(">t0\nACG\n>t1\nGCG\n>t2\nACA\n")
	qtype, ttype := "fasta", "fasta"
	distall := 3
	kind := vChoice("kind", 16)
	list := false
	switch kind {
	case 0: // more than one record in --reference
		ref = []byte(">ref\nACG\n>r2\nACG\n")
		list = vBool("list")
	case 1: // reference and alignment of different widths
		ref = []byte(">ref\nACGT\n")
		list = vBool("list")
	case 2: // unequal rows in the target at any record
		k := vChoice("badrecord", 3)
		rows := []string{"ACG", "GCG", "ACA"}
		if vBool("longer") {
			rows[k] = rows[k] + "A"
		} else {
			rows[k] = rows[k][:2]
		}
		t = []byte(">t0\n" + rows[0] + "\n>t1\n" + rows[1] + "\n>t2\n" + rows[2] + "\n")
		list = vBool("list")
	case 3: // invalid symbol
		t = []byte(">t0\nACG\n>t1\nGXG\n")
		list = vBool("list")
	case 4: // empty target
		t = []byte{}
		list = vBool("list")
	case 5: // no size/dist option at all
		distall = 0
	case 6: // target CSV that is empty
		ttype = "csv"
		t = []byte{}
		vNote("empty-csv")
	case 7: // query CSV that is empty
		qtype = "csv"
		q = []byte{}
		vNote("empty-csv")
	case 8: // CSV that is not updown list output (wrong header)
		ttype = "csv"
		t = []byte("name,snps,ambs,n,m\nt0,,,0,0\n")
	case 10: // target CSV whose header has an extra column
		ttype = "csv"
		t = []byte("query,SNPs,ambiguities,SNPcount,ambcount,extra\nt0,,,0,0,x\n")
	case 11: // target CSV whose header lacks a column
		ttype = "csv"
		t = []byte("query,SNPs,ambiguities,SNPcount\nt0,,,0\n")
	case 12, 13: // a CSV row (first, middle or last) whose SNP field is not what updown list writes
		rows := []string{"r0,A1C,,1,0", "r1,A1C|G3T,,2,0", "r2,,,0,0"}
		r := vChoice("badrow", 3)
		rows[r] = "r" + vItoa(r) + "," + []string{"G3xT", "AoneC", "A1C|GxT"}[vChoice("badtoken", 3)] + ",,1,0"
		txt := []byte("query,SNPs,ambiguities,SNPcount,ambcount\n" + rows[0] + "\n" + rows[1] + "\n" + rows[2] + "\n")
		if kind == 12 {
			ttype, t = "csv", txt
		} else {
			qtype, q = "csv", txt
		}
	case 14, 15: // a CSV row whose ambiguity ranges or ambiguity count are not numbers
		rows := []string{"r0,A1C,,1,0", "r1,A1C,2-3,1,2", "r2,,,0,0"}
		r := vChoice("badrow", 3)
		rows[r] = "r" + vItoa(r) + ",A1C," + []string{"2-x,1,2", "x,1,1", "2-3,1,two"}[vChoice("badfield", 3)]
		txt := []byte("query,SNPs,ambiguities,SNPcount,ambcount\n" + rows[0] + "\n" + rows[1] + "\n" + rows[2] + "\n")
		if kind == 14 {
			ttype, t = "csv", txt
		} else {
			qtype, q = "csv", txt
		}
	case 9: // query CSV with wrong header
		qtype = "csv"
		q = []byte("query,SNPs\nq0,\n")
	}
	vRaceDetect()
	vSchedExplore(vParam("DEV"))
	w := &vCapture{}
	var err error
	if list {
		err = List(bytes.NewReader(ref), bytes.NewReader(t), w)
	} else {
		err = TopRanking(bytes.NewReader(q), bytes.NewReader(t), bytes.NewReader(ref), w, false, qtype, ttype, nil, 0, 0, 0, 0, 0, distall, 0, 0, 0, 0.1, 10000, false, 0)
	}
	vAssert("C18.updown.invalid-input-refused-with-error", err != nil)
}
