package updown

import "bytes"

var vMenu = []string{"CAA", "AAA", "CCA", "CCC", "ACA", "ACC", "CAN", "ANA", "NAA", "CCN", "ACN"}

// vMenuTargets: T targets, each an arbitrary entry of a menu of sequences that covers all four bins,
// several distances, ambiguity counts in every bin and a pair failing the ambiguity threshold. Query is "CAA" on
// reference "AAA". Real getLines builds the records.
func vMenuTargets(T int) (updownLine, []updownLine) {
	txts := make([][]byte, T+1)
	ids := make([]string, T+1)
	txts[0] = []byte("CAA")
	ids[0] = "query"
	for i := 0; i < T; i++ {
		txts[i+1] = []byte(vMenu[vChoice(vName("menu", i), len(vMenu))])
		ids[i+1] = "t" + vItoa(i)
	}
	ls := vLines([]byte("AAA"), txts, ids)
	return ls[0], ls[1:]
}

func vBefore(da, db, aa, ab, ia, ib int) bool {
	return vOr(da < db, vAnd(da == db, vOr(aa < ab, vAnd(aa == ab, ia < ib))))
}

// VH_C08_catchment: bins are prefixes of their candidates in (distance, ambiguities, file order), within the
// --dist limits, with sizes given by the balancing rule.
func VH_C08_catchment() {
	T := vParam("T")
	q, targets := vMenuTargets(T)
	var sizeArray, distArray [4]int
	for i := 0; i < 4; i++ {
		sizeArray[i] = vRange(vName("size", i), 0, 2)
		distArray[i] = vRange(vName("dist", i), 0, 3)
	}
	nofill := vBool("nofill")
	var ignore []string
	if vBool("ignore_t0") {
		ignore = []string{"t0"}
	}
	thresh := float32(0.5)
	cIn := make(chan updownLine, T)
	for _, t := range targets {
		cIn <- t
	}
	close(cIn)
	cOut := make(chan updownCatchmentStruct, 1)
	findUpDownCatchment(q, ignore, sizeArray, nofill, distArray, thresh, cIn, cOut)
	vAssert("C08.b.one-result", len(cOut) == 1)
	res := <-cOut
	vAssert("C08.b.query-identity", res.qname == "query" && res.qidx == 0)
	bins := [4][]resultsStruct{res.same.catchment, res.up.catchment, res.down.catchment, res.side.catchment}

	// candidates per bin, by the (separately decided) pairwise classification
	dir := make([]int, T)
	dist := make([]int, T)
	cand := make([]bool, T)
	var nCand [4]int
	for i, t := range targets {
		dir[i], dist[i] = whichWay(q, t, thresh)
		ign := len(ignore) > 0 && t.id == "t0"
		if !ign && dist[i] >= 0 && dist[i] <= distArray[dir[i]] {
			cand[i] = true
			nCand[dir[i]]++
		}
	}
	sizetotal := sizeArray[0] + sizeArray[1] + sizeArray[2] + sizeArray[3]
	var observed [4]int
	for b := 0; b < 4; b++ {
		observed[b] = nCand[b]
		if observed[b] > sizetotal {
			observed[b] = sizetotal
		}
	}
	want := balance(sizetotal, sizeArray, observed, nofill)
	total := 0
	for b := 0; b < 4; b++ {
		L := bins[b]
		total += len(L)
		vAssert("C08.b.bin-size-follows-balancing-rule", len(L) == want[b])
		member := make([]bool, T)
		idxs := make([]int, 0, T)
		for _, hit := range L {
			k := -1
			for i := range targets {
				if targets[i].id == hit.tname {
					k = i
				}
			}
			vAssert("C08.b.member-is-a-target", k >= 0)
			if k < 0 {
				return
			}
			vAssert("C08.b.member-is-candidate-of-its-bin", cand[k] && dir[k] == b && !member[k])
			vAssert("C08.b.member-distance-reported", hit.distance == dist[k] && hit.ambCount == targets[k].ambCount)
			member[k] = true
			idxs = append(idxs, k)
		}
		for i := 0; i+1 < len(idxs); i++ {
			a, c := idxs[i], idxs[i+1]
			vAssert("C08.b.bin-in-documented-order", vBefore(dist[a], dist[c], targets[a].ambCount, targets[c].ambCount, a, c))
		}
		for i := 0; i < T; i++ {
			if cand[i] && dir[i] == b && !member[i] {
				for _, m := range idxs {
					vAssert("C08.b.bin-is-a-prefix-of-its-candidates", vBefore(dist[m], dist[i], targets[m].ambCount, targets[i].ambCount, m, i))
				}
			}
		}
	}
	vAssert("C08.b.total-within-limit", total <= sizetotal)
}

// VH_C08_push: under --dist-push k each of up/down/side holds exactly the targets at that bin's k smallest
// occurring distances, nearest first; same holds every identical target. Map iteration orders are explored.
// vPushMenuTargets: query CCCA on reference AAAA, so that the up bin has three occurring distances (1, 2, 3)
// and several targets per distance.
var vPushMenu = []string{"AAAA", "CAAA", "CCAA", "ACAA", "CCCA", "CCCC", "CCAC"}

func vPushMenuTargets(T int) (updownLine, []updownLine) {
	txts := make([][]byte, T+1)
	ids := make([]string, T+1)
	txts[0] = []byte("CCCA")
	ids[0] = "query"
	for i := 0; i < T; i++ {
		txts[i+1] = []byte(vPushMenu[vChoice(vName("menu", i), len(vPushMenu))])
		ids[i+1] = "t" + vItoa(i)
	}
	ls := vLines([]byte("AAAA"), txts, ids)
	return ls[0], ls[1:]
}

// vManyTargets: a concrete crowd for one bin: the query equals the reference, so every target with a SNP is
// "down"; T targets cycle through eight patterns (two distances, with and without an ambiguity), so that every
// (distance, ambiguity count) class holds several targets whose order can only come from the file order; the
// file order itself is rotated by a symbolic offset.
var vManyMenu = []string{"CAAA", "ACAA", "AANC", "NCAA", "CCAA", "ACCA", "CNCA", "AACC"}

func vManyTargets(T, rot int) (updownLine, []updownLine) {
	txts := make([][]byte, T+1)
	ids := make([]string, T+1)
	txts[0] = []byte("AAAA")
	ids[0] = "query"
	for i := 0; i < T; i++ {
		txts[i+1] = []byte(vManyMenu[(i+rot)%len(vManyMenu)])
		ids[i+1] = "t" + vItoa(i)
	}
	ls := vLines([]byte("AAAA"), txts, ids)
	return ls[0], ls[1:]
}

func VH_C08_push() {
	T := vParam("T")
	vMapOrder(vParam("MAPORDER") == 1)
	var q updownLine
	var targets []updownLine
	if vParam("MENU") == 2 {
		q, targets = vManyTargets(T, vChoice("rotation", len(vManyMenu)))
	} else if vParam("MENU") == 1 {
		q, targets = vPushMenuTargets(T)
	} else {
		q, targets = vMenuTargets(T)
	}
	k := 1 + vChoice("k", 2)
	thresh := float32(0.5)
	cIn := make(chan updownLine, T)
	for _, t := range targets {
		cIn <- t
	}
	close(cIn)
	cOut := make(chan updownCatchmentStruct, 1)
	findUpDownCatchmentPushDistance(q, nil, [4]int{}, k, thresh, cIn, cOut)
	vAssert("C08.d.one-result", len(cOut) == 1)
	res := <-cOut
	bins := [4][]resultsStruct{res.same.catchment, res.up.catchment, res.down.catchment, res.side.catchment}
	dir := make([]int, T)
	dist := make([]int, T)
	for i, t := range targets {
		dir[i], dist[i] = whichWay(q, t, thresh)
	}
	for b := 0; b < 4; b++ {
		// the k smallest occurring distances of this bin
		var occurring []int
		for d := 0; d <= 4; d++ {
			for i := 0; i < T; i++ {
				if dist[i] == d && dir[i] == b {
					occurring = append(occurring, d)
					break
				}
			}
		}
		limit := 1 << 30
		if b > 0 && len(occurring) > k {
			limit = occurring[k-1]
		} else if b > 0 && len(occurring) > 0 {
			limit = occurring[len(occurring)-1]
		}
		var want []int
		for d := 0; d <= 4; d++ {
			for a := 0; a <= 3; a++ {
				for i := 0; i < T; i++ {
					if dir[i] == b && dist[i] == d && targets[i].ambCount == a && dist[i] <= limit {
						want = append(want, i)
					}
				}
			}
		}
		if b == 0 {
			// same: every identical target, in file order
			want = want[:0]
			for i := 0; i < T; i++ {
				if dir[i] == 0 && dist[i] >= 0 {
					want = append(want, i)
				}
			}
		}
		L := bins[b]
		vAssert("C08.d.bin-size", len(L) == len(want))
		if len(L) != len(want) {
			return
		}
		for i := range L {
			vAssert("C08.d.bin-content-and-order", L[i].tname == targets[want[i]].id && L[i].distance == dist[want[i]])
		}
	}
}

// VH_C08_threshold: the pair-ambiguity threshold at its boundary. Ten consequential sites (the query's ten
// SNPs), of which the target is ambiguous at k (symbolic 0..10); --threshold-pair t/10 for t in 1,3,5,7,9 (the
// float32 the command line parses). The pair passes exactly when k/10 does not exceed t/10 -- including
// k = t, where the two sides are the same number however it is rounded -- and then the target is "same" at
// distance 0; through whichWay and through the whole TopRanking command.
func VH_C08_threshold() {
	ref := []byte("AAAAAAAAAA")
	k := vChoice("ambiguousSites", 11)
	t10 := 1 + 2*vChoice("threshold", 5)
	thr := []float32{0.1, 0.3, 0.5, 0.7, 0.9}[(t10-1)/2]
	target := []byte("CCCCCCCCCC")
	for i := 0; i < k; i++ {
		target[i] = 'N'
	}
	ls := vLines(ref, [][]byte{[]byte("CCCCCCCCCC"), target}, []string{"q", "t"})
	dir, dist := whichWay(ls[0], ls[1], thr)
	if k > t10 {
		vAssert("C08.t.pair-above-threshold-excluded", dist == -1)
	} else {
		vAssert("C08.t.pair-at-or-below-threshold-kept", dir == 0 && dist == 0)
	}
	// the whole command
	w := &vCapture{}
	qf := []byte(">q\nCCCCCCCCCC\n")
	tf := append(append([]byte(">t\n"), target...), '\n')
	err := TopRanking(bytes.NewReader(qf), bytes.NewReader(tf), bytes.NewReader([]byte(">ref\nAAAAAAAAAA\n")), w, true, "fasta", "fasta", nil, 0, 0, 0, 0, 0, 5, 0, 0, 0, thr, 10000, false, 0)
	vAssert("C08.t.command-ok", err == nil)
	rows := 0
	for _, c := range w.buf {
		if c == '\n' {
			rows++
		}
	}
	if k > t10 {
		vAssert("C08.t.command-excludes-the-pair", rows == 1)
	} else {
		vAssert("C08.t.command-reports-the-pair", rows == 2)
	}
}

// VH_C08_target_filter: --threshold-target and --ignore. One query (one SNP) and one target sharing that SNP and
// carrying a ambiguous symbols (a symbolic 0..4) at columns where neither has a SNP, so that the pair threshold is
// not involved: the target is reported exactly when a does not exceed --threshold-target T (T symbolic 0..3) and
// its name is not on the ignore list.
func VH_C08_target_filter() {
	a := vChoice("targetAmbiguities", 5)
	T := vChoice("thresholdTarget", 4)
	ignored := vBool("ignored")
	target := []byte("CAAAAAAAAA")
	for i := 0; i < a; i++ {
		target[2+i] = "NR-?Y"[i]
	}
	var ignore []string
	if ignored {
		ignore = []string{"other", "t"}
	}
	w := &vCapture{}
	qf := []byte(">q\nCAAAAAAAAA\n")
	tf := append(append([]byte(">t\n"), target...), '\n')
	err := TopRanking(bytes.NewReader(qf), bytes.NewReader(tf), bytes.NewReader([]byte(">ref\nAAAAAAAAAA\n")), w, true, "fasta", "fasta", ignore, 0, 0, 0, 0, 0, 5, 0, 0, 0, 0.5, T, false, 0)
	vAssert("C08.f.command-ok", err == nil)
	rows := 0
	for _, c := range w.buf {
		if c == '\n' {
			rows++
		}
	}
	if a > T || ignored {
		vAssert("C08.f.target-over-threshold-or-ignored-is-not-reported", rows == 1)
	} else {
		vAssert("C08.f.target-within-threshold-is-reported", rows == 2)
	}
}
