package updown

import (
	"bytes"
	"errors"
)

type vFailWriter struct {
	failAt int
	n      int
}

func (w *vFailWriter) Write(p []byte) (int, error) {
	w.n++
	if w.n == w.failAt {
		return 0, errors.New("write failed")
	}
	return len(p), nil
}

// VH_C19_updown: a failed write at any point makes updown list / topranking return an error.
func VH_C19_updown() {
	mode := vChoice("mode", 3) // 0 list, 1 topranking, 2 topranking --table
	ref := []byte(">ref\nACGT\n")
	q := []byte(">q0\nACGA\n>q1\nTCGT\n")
	t := []byte(">t0\nACGT\n>t1\nACGA\n>t2\nTCNA\n")
	run := func(w *vFailWriter) error {
		switch mode {
		case 0:
			return List(bytes.NewReader(ref), bytes.NewReader(t), w)
		case 1:
			return TopRanking(bytes.NewReader(q), bytes.NewReader(t), bytes.NewReader(ref), w, false, "fasta", "fasta", nil, 0, 0, 0, 0, 0, 5, 0, 0, 0, 0.1, 10000, false, 0)
		}
		return TopRanking(bytes.NewReader(q), bytes.NewReader(t), bytes.NewReader(ref), w, true, "fasta", "fasta", nil, 0, 0, 0, 0, 0, 5, 0, 0, 0, 0.1, 10000, false, 0)
	}
	w0 := &vFailWriter{}
	vAssert("C19.updown.no-failure-no-error", run(w0) == nil && w0.n > 0)
	k := 1 + vChoice("k", w0.n)
	vRaceDetect()
	vSchedExplore(vParam("DEV"))
	err := run(&vFailWriter{failAt: k})
	vAssert("C19.updown.failed-write-is-reported", err != nil)
}
