package updown

// VH_C10_list: each updown list row is a lossless summary of its sequence relative to the reference.
func VH_C10_list() {
	W := vParam("W")
	BS := vBaseSetTable()
	SG := vSingleTable()
	UP := vUpperTable()
	var refAlpha string
	if vParam("IUPACREF") == 1 {
		refAlpha = vSigma34
	} else {
		refAlpha = "ACGT"
	}
	ref := vSymText("r", 0, W, refAlpha)
	seq := vSymText("s", 0, W, vSigma34)
	ls := vLines(ref, [][]byte{seq}, []string{"id0"})
	l := ls[0]
	vAssert("C10.id-idx", l.id == "id0" && l.idx == 0)

	// definition: ambiguity runs = maximal runs of columns whose symbol is not a single base;
	// SNPs = single-base columns whose base is not in the reference symbol's set
	expAmbs := make([]int, 0)
	expSnps := ""
	nSnps, nAmb := 0, 0
	inRun := false
	start := 0
	for i := 0; i < W; i++ {
		if SG[BS[seq[i]]] {
			if inRun {
				expAmbs = append(expAmbs, start+1, i)
				inRun = false
			}
			if BS[ref[i]]&BS[seq[i]] == 0 {
				if nSnps > 0 {
					expSnps += "|"
				}
				expSnps += string([]byte{UP[ref[i]]}) + vItoa(i+1) + string([]byte{UP[seq[i]]})
				nSnps++
			}
		} else {
			nAmb++
			if !inRun {
				inRun = true
				start = i
			}
		}
	}
	if inRun {
		expAmbs = append(expAmbs, start+1, W)
	}
	vAssert("C10.ambs-count", len(l.ambs) == len(expAmbs))
	if len(l.ambs) != len(expAmbs) {
		return
	}
	for i := range expAmbs {
		vAssert("C10.ambs-are-maximal-runs", l.ambs[i] == expAmbs[i])
	}
	gotSnps := ""
	for i, s := range l.snps {
		if i > 0 {
			gotSnps += "|"
		}
		gotSnps += s
	}
	vAssert("C10.snps-are-definition", gotSnps == expSnps)
	vAssert("C10.snpcount", l.snpCount == nSnps && len(l.snps) == nSnps && len(l.snpsPos) == nSnps)
	vAssert("C10.ambcount", l.ambCount == nAmb)
	// runs are ascending, non-empty and separated by at least one resolved column
	for i := 0; i+1 < len(l.ambs); i += 2 {
		vAssert("C10.run-wellformed", l.ambs[i] >= 1 && l.ambs[i] <= l.ambs[i+1] && l.ambs[i+1] <= W)
		if i+2 < len(l.ambs) {
			vAssert("C10.runs-separated", l.ambs[i+1]+1 < l.ambs[i+2])
		}
	}
	// reconstruction: from (reference, snps, ambs) alone rebuild the sequence up to the identity of
	// the non-A/C/G/T symbols
	rebuilt := make([]byte, W)
	for i := 0; i < W; i++ {
		rebuilt[i] = UP[ref[i]]
	}
	for k, s := range l.snps {
		p := l.snpsPos[k]
		vAssert("C10.snp-pos-in-range", p >= 1 && p <= W)
		if p < 1 || p > W {
			return
		}
		rebuilt[p-1] = s[len(s)-1]
	}
	for i := 0; i+1 < len(l.ambs); i += 2 {
		for p := l.ambs[i]; p <= l.ambs[i+1]; p++ {
			rebuilt[p-1] = '*'
		}
	}
	for i := 0; i < W; i++ {
		if SG[BS[seq[i]]] {
			if SG[BS[ref[i]]] {
				vAssert("C10.reconstruct-resolved", rebuilt[i] == UP[seq[i]])
			}
		} else {
			vAssert("C10.reconstruct-ambiguous", rebuilt[i] == '*')
		}
	}
	// the written row
	cU := make(chan updownLine, 1)
	cU <- l
	close(cU)
	w := &vCapture{}
	cErr := make(chan error, 1)
	cDone := make(chan bool, 1)
	writeOutput(w, cU, cErr, cDone)
	expRow := "query,SNPs,ambiguities,SNPcount,ambcount\nid0," + expSnps + ","
	for i := 0; i+1 < len(expAmbs); i += 2 {
		if i > 0 {
			expRow += "|"
		}
		if expAmbs[i] == expAmbs[i+1] {
			expRow += vItoa(expAmbs[i])
		} else {
			expRow += vItoa(expAmbs[i]) + "-" + vItoa(expAmbs[i+1])
		}
	}
	expRow += "," + vItoa(nSnps) + "," + vItoa(nAmb) + "\n"
	vAssert("C10.row-text", string(w.buf) == expRow && len(cDone) == 1 && len(cErr) == 0)
}

// VH_C10_wide: a 14-column sequence (positions >= 10) that equals the reference except in a window of four
// symbolic columns placed anywhere: the written row.
func VH_C10_wide() {
	W := vParam("W")
	BS := vBaseSetTable()
	SG := vSingleTable()
	UP := vUpperTable()
	ref := make([]byte, W)
	for i := range ref {
		ref[i] = "ACGT"[i%4]
	}
	seq := append([]byte{}, ref...)
	var off int
	if W <= 20 {
		off = vChoice("offset", W-3)
	} else {
		// long rows: the window sits where positions gain a digit (9|10, 99|100) or at the end
		off = []int{6, 7, 8, 9, 96, 97, 98, 99, W - 4}[vChoice("offset", 9)]
		// and a fixed ambiguity tract and SNP elsewhere, so that every list has several entries
		seq[49], seq[50], seq[51] = 'N', 'N', 'N'
		seq[29] = "CGTA"[29%4]
	}
	for i := off; i < off+4; i++ {
		seq[i] = vNuc(vName("s", i-off), vSigma34)
	}
	ls := vLines(ref, [][]byte{seq}, []string{"id0"})
	cU := make(chan updownLine, 1)
	cU <- ls[0]
	close(cU)
	w := &vCapture{}
	cErr := make(chan error, 1)
	cDone := make(chan bool, 1)
	writeOutput(w, cU, cErr, cDone)
	snps, ambs := "", ""
	nS, nA := 0, 0
	start := -1
	for i := 0; i <= W; i++ {
		amb := i < W && !SG[BS[seq[i]]]
		if amb {
			nA++
			if start < 0 {
				start = i
			}
			continue
		}
		if start >= 0 {
			if ambs != "" {
				ambs += "|"
			}
			if start+1 == i {
				ambs += vItoa(i)
			} else {
				ambs += vItoa(start+1) + "-" + vItoa(i)
			}
			start = -1
		}
		if i < W && BS[ref[i]]&BS[seq[i]] == 0 {
			if snps != "" {
				snps += "|"
			}
			snps += string([]byte{ref[i]}) + vItoa(i+1) + string([]byte{UP[seq[i]]})
			nS++
		}
	}
	exp := "query,SNPs,ambiguities,SNPcount,ambcount\nid0," + snps + "," + ambs + "," + vItoa(nS) + "," + vItoa(nA) + "\n"
	vAssert("C10.wide.row-text", string(w.buf) == exp)
}
