package updown

import "bytes"

// VH_C12_updown_sched: updown list / topranking output does not depend on the goroutine schedule.
func VH_C12_updown_sched() {
	vNumCPU(vParam("NCPU"))
	mode := vChoice("mode", 3)
	ref := []byte(">ref\nACGT\n")
	q := []byte(">q0\nACGA\n>q1\nTCGT\n")
	t := []byte(">t0\nACGT\n>t1\nACGA\n>t2\nTCNA\n")
	run := func() string {
		w := &vCapture{}
		var err error
		switch mode {
		case 0:
			err = List(bytes.NewReader(ref), bytes.NewReader(t), w)
		case 1:
			err = TopRanking(bytes.NewReader(q), bytes.NewReader(t), bytes.NewReader(ref), w, false, "fasta", "fasta", nil, 0, 0, 0, 0, 0, 5, 0, 0, 0, 0.1, 10000, false, 0)
		default:
			err = TopRanking(bytes.NewReader(q), bytes.NewReader(t), bytes.NewReader(ref), w, true, "fasta", "fasta", nil, 0, 0, 0, 0, 0, 0, 0, 0, 0, 0.1, 10000, false, 1)
		}
		vAssert("C12.updown.no-error", err == nil)
		return string(w.buf)
	}
	vNumCPU(1 + vChoice("ncpu", vParam("NCPU")+1))
	vRaceDetect()
	vSchedExplore(vParam("DEV"))
	got := run()
	vSchedExplore(0)
	vNumCPU(vParam("NCPU"))
	vAssert("C12.updown.output-independent-of-schedule", got == run())
}

// VH_C12_updown_arrival: reorderRecords and the list writer restore input order for every arrival order.
func VH_C12_updown_arrival() {
	N := vParam("N")
	lines := make([]updownLine, N)
	for i := 0; i < N; i++ {
		// every record carries its own SNPs and ambiguity ranges, so that anything leaking from one
		// record into another shows in the bytes written
		lines[i] = updownLine{id: "s" + vItoa(i), idx: i, snps: []string{"A" + vItoa(i+1) + "C"}, snpCount: 1, ambs: []int{i + 10, i + 10, i + 20, i + 25}, ambCount: 7}
	}
	used := make([]bool, N)
	order := make([]int, 0, N)
	for i := 0; i < N; i++ {
		c := vChoice(vName("arrive", i), N)
		vAssume(!used[c])
		used[c] = true
		order = append(order, c)
	}
	cIn := make(chan updownLine, N)
	for _, c := range order {
		cIn <- lines[c]
	}
	close(cIn)
	cOut := make(chan updownLine, N)
	cDone := make(chan bool, 1)
	reorderRecords(cIn, cOut, cDone)
	vAssert("C12.updown.reorder-forwards-everything", len(cOut) == N && len(cDone) == 1)
	for i := 0; i < N && len(cOut) > 0; i++ {
		r := <-cOut
		vAssert("C12.updown.reorder-restores-input-order", r.idx == i)
	}
	cW := make(chan updownLine, N)
	for _, c := range order {
		cW <- lines[c]
	}
	close(cW)
	w := &vCapture{}
	cErr := make(chan error, 1)
	cD2 := make(chan bool, 1)
	writeOutput(w, cW, cErr, cD2)
	exp := "query,SNPs,ambiguities,SNPcount,ambcount\n"
	for i := 0; i < N; i++ {
		exp += "s" + vItoa(i) + ",A" + vItoa(i+1) + "C," + vItoa(i+10) + "|" + vItoa(i+20) + "-" + vItoa(i+25) + ",1,7\n"
	}
	vAssert("C12.updown.writer-restores-input-order", string(w.buf) == exp)
}
