package snps

import "bytes"

// vCorruptAlignment builds a 3-record alignment of width 3 and applies one corruption (symbolic kind, record,
// position, offending byte).
func vCorruptAlignment(kind int) []byte {
	rows := [][]byte{[]byte("ACG"), []byte("ACT"), []byte("GCG")}
	heads := []string{">s0\n", ">s1\n", ">s2\n"}
	switch kind {
	case 0: // unequal row length at record k (first, middle or last), longer or shorter
		k := vChoice("badrecord", 3)
		if vBool("longer") {
			rows[k] = append(rows[k], 'A')
		} else {
			rows[k] = rows[k][:2]
		}
	case 1: // a byte outside the alphabet somewhere
		k := vChoice("badrecord", 3)
		i := vChoice("badpos", 3)
		b := vByte("bad")
		vAssume(b != '\n' && b != '\r' && b != '>')
		ok := false
		for _, c := range []byte("ACGTRYSWKMBDHVN-?acgtryswkmbdhvn") {
			if b == c {
				ok = true
			}
		}
		vAssume(!ok)
		rows[k][i] = b
	case 2: // no header on the first record
		heads[0] = ""
	case 3: // empty file
		return []byte{}
	}
	var out []byte
	for i := range rows {
		out = append(out, []byte(heads[i])...)
		out = append(out, rows[i]...)
		out = append(out, '\n')
	}
	return out
}

// VH_C18_snps: every documented invalid input makes SNPs() return an error.
func VH_C18_snps() {
	ref := []byte(">ref\nACG\n")
	aln := []byte(">s0\nACG\n>s1\nACT\n")
	kind := vChoice("kind", 8)
	switch kind {
	case 0, 1, 2, 3:
		aln = vCorruptAlignment(kind)
	case 4: // reference wider / narrower than the alignment
		if vBool("refLonger") {
			ref = []byte(">ref\nACGT\n")
		} else {
			ref = []byte(">ref\nAC\n")
		}
	case 5: // more than one record in --reference
		ref = []byte(">ref\nACG\n>ref2\nACG\n")
	case 6: // empty reference
		ref = []byte{}
	case 7: // reference with an invalid symbol
		ref = []byte(">ref\nAXG\n")
	}
	if kind != 1 { // the symbolic offending byte is explored under the default schedule only
		vRaceDetect()
	vSchedExplore(vParam("DEV"))
	}
	w := &vCapture{}
	err := SNPs(bytes.NewReader(ref), bytes.NewReader(aln), false, vBool("aggregate"), 0, w)
	vAssert("C18.snps.invalid-input-refused-with-error", err != nil)
}
