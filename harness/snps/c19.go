package snps

import (
	"bytes"
	"errors"
)

type vFailWriter struct {
	failAt int // 1-based index of the Write call that fails; 0 = never
	n      int
}

func (w *vFailWriter) Write(p []byte) (int, error) {
	w.n++
	if w.n == w.failAt {
		return 0, errors.New("write failed")
	}
	return len(p), nil
}

// VH_C19_snps: a failed write at any point makes SNPs() return an error; no failure, no error.
func VH_C19_snps() {
	aggregate := vBool("aggregate")
	ref := []byte(">ref\nACGT\n")
	aln := []byte(">s0\nACGA\n>s1\nTCGT\n>s2\nACGT\n")
	w0 := &vFailWriter{}
	e0 := SNPs(bytes.NewReader(ref), bytes.NewReader(aln), false, aggregate, 0, w0)
	vAssert("C19.snps.no-failure-no-error", e0 == nil && w0.n > 0)
	k := 1 + vChoice("k", w0.n)
	vRaceDetect()
	vSchedExplore(vParam("DEV"))
	w := &vFailWriter{failAt: k}
	err := SNPs(bytes.NewReader(ref), bytes.NewReader(aln), false, aggregate, 0, w)
	vAssert("C19.snps.failed-write-is-reported", err != nil)
}
