package snps

import (
	"math"
	"strconv"

	"github.com/virus-evolution/gofasta/pkg/encoding"
	"github.com/virus-evolution/gofasta/pkg/fastaio"
)

// vThreshold: the threshold menu for n sequences: 0, 0.5, and for every occurring frequency j/n the value itself,
// its two floating-point neighbours, and the value as printed to 9 decimals (which differs from j/n whenever
// j/n is not exact in 9 decimals).
func vThresholdCount(n int) int { return 2 + 4*n }

func vThreshold(k, n int) float64 {
	switch k {
	case 0:
		return 0
	case 1:
		return 0.5
	}
	k -= 2
	f := float64(k/4+1) / float64(n)
	switch k % 4 {
	case 1:
		return math.Nextafter(f, 2)
	case 2:
		return math.Nextafter(f, -1)
	case 3:
		p, _ := strconv.ParseFloat(strconv.FormatFloat(f, 'f', 9, 64), 64)
		return p
	}
	return f
}

// VH_C13_snps_aggregate: --aggregate lists each distinct SNP once with frequency count/n (9 decimals), keeps
// those with frequency >= threshold, ordered by position.
func VH_C13_snps_aggregate() {
	W := vParam("W")
	N := vParam("N")
	EA := encoding.MakeEncodingArray()
	ref := make([]byte, W)
	for i := 0; i < W; i++ {
		ref[i] = EA[vNuc(vName("r", i), "ACGT")]
	}
	cFR := make(chan fastaio.EncodedFastaRecord, N)
	for n := 0; n < N; n++ {
		seq := make([]byte, W)
		for i := 0; i < W; i++ {
			seq[i] = EA[vNuc(vName("q", n, i), "ACGTN-")]
		}
		cFR <- fastaio.EncodedFastaRecord{ID: "s" + strconv.Itoa(n), Seq: seq, Idx: n}
	}
	close(cFR)
	cS := make(chan snpLine, N)
	cErr := make(chan error, 8)
	getSNPs(ref, cFR, cS, cErr)
	vAssert("C13.snps.lines", len(cS) == N && len(cErr) == 0)
	lines := make([]snpLine, 0, N)
	for n := 0; n < N; n++ {
		lines = append(lines, <-cS)
	}
	thr := vThreshold(vChoice("thr", vThresholdCount(N)), N)
	cA := make(chan snpLine, N)
	for _, l := range lines {
		cA <- l
	}
	close(cA)
	w := &vCapture{}
	cDone := make(chan bool, 1)
	aggregateWriteOutput(w, thr, cA, cErr, cDone)
	vAssert("C13.snps.writer-done", len(cDone) == 1 && len(cErr) == 0)
	out := string(w.buf)
	// rows
	header := "SNP,frequency\n"
	vAssert("C13.snps.header", len(out) >= len(header) && out[:len(header)] == header)
	var rowSNP, rowFreq []string
	i := len(header)
	for i < len(out) {
		j := i
		for out[j] != ',' {
			j++
		}
		k := j
		for out[k] != '\n' {
			k++
		}
		rowSNP = append(rowSNP, out[i:j])
		rowFreq = append(rowFreq, out[j+1:k])
		i = k + 1
	}
	// every row: a mutation of some sequence, counted right, above threshold
	lastPos := 0
	for r := range rowSNP {
		count := 0
		for _, l := range lines {
			for _, s := range l.snps {
				if s == rowSNP[r] {
					count++
				}
			}
		}
		vAssert("C13.snps.row-is-a-real-mutation", count > 0)
		f := float64(count) / float64(N)
		vAssert("C13.snps.frequency-is-count-over-n-to-9-decimals", rowFreq[r] == strconv.FormatFloat(f, 'f', 9, 64))
		vAssert("C13.snps.row-at-or-above-threshold", f >= thr)
		for r2 := 0; r2 < r; r2++ {
			vAssert("C13.snps.each-mutation-once", rowSNP[r2] != rowSNP[r])
		}
		pos, err := strconv.Atoi(rowSNP[r][1 : len(rowSNP[r])-1])
		vAssert("C13.snps.ordered-by-position", err == nil && pos >= lastPos)
		lastPos = pos
	}
	// every mutation at or above threshold has a row
	for _, l := range lines {
		for _, s := range l.snps {
			count := 0
			for _, l2 := range lines {
				for _, s2 := range l2.snps {
					if s2 == s {
						count++
					}
				}
			}
			listed := false
			for r := range rowSNP {
				if rowSNP[r] == s {
					listed = true
				}
			}
			vAssert("C13.snps.kept-iff-frequency-at-least-threshold", listed == (float64(count)/float64(N) >= thr))
		}
	}
}

// VH_C13_snps_order: aggregate rows are ordered by genomic position (numerically), then allele.
func VH_C13_snps_order() {
	// three sequences with SNPs at positions chosen from {2, 9, 10, 11, 100}
	posset := []int{2, 9, 10, 11, 100}
	N := 3
	cA := make(chan snpLine, N)
	for n := 0; n < N; n++ {
		p1 := posset[vChoice(vName("p", n, 0), len(posset))]
		p2 := posset[vChoice(vName("p", n, 1), len(posset))]
		vAssume(p1 < p2)
		cA <- snpLine{queryname: "s" + strconv.Itoa(n), idx: n, snps: []string{"A" + strconv.Itoa(p1) + "C", "A" + strconv.Itoa(p2) + string("CGT"[n])}}
	}
	close(cA)
	w := &vCapture{}
	cErr := make(chan error, 8)
	cDone := make(chan bool, 1)
	aggregateWriteOutput(w, 0, cA, cErr, cDone)
	vAssert("C13.order.writer-done", len(cDone) == 1 && len(cErr) == 0)
	out := string(w.buf)
	last := 0
	i := len("SNP,frequency\n")
	for i < len(out) {
		j := i
		for out[j] != ',' {
			j++
		}
		pos, err := strconv.Atoi(out[i+1 : j-1])
		vAssert("C13.order.rows-in-numeric-position-order", err == nil && pos >= last)
		last = pos
		for out[j] != '\n' {
			j++
		}
		i = j + 1
	}
}
