package snps

import (
	"bytes"
	"strconv"
)

// VH_C12_snps_sched: the bytes written by SNPs() do not depend on the goroutine schedule: every cooperative
// schedule with at most DEV deviations from the default (choice of the next goroutine at each channel
// operation, choice among ready select cases) gives the output of the default schedule.
func VH_C12_snps_sched() {
	vNumCPU(vParam("NCPU"))
	aggregate := vBool("aggregate")
	ref := []byte(">ref\nACGT\n")
	aln := []byte(">s0\nACGA\n>s1\nTCGT\n>s2\nACGT\n>s3\nACTA\n")
	run := func() string {
		w := &vCapture{}
		err := SNPs(bytes.NewReader(ref), bytes.NewReader(aln), false, aggregate, 0, w)
		vAssert("C12.snps.no-error", err == nil)
		return string(w.buf)
	}
	// the explored run comes first, on fresh package state (a lazily grown buffer or a cache warmed by an
	// earlier run would hide what the first concurrent run does); the reference run follows
	vNumCPU(1 + vChoice("ncpu", vParam("NCPU")+1))
	vRaceDetect()
	vSchedExplore(vParam("DEV"))
	got := run()
	vSchedExplore(0)
	vNumCPU(vParam("NCPU"))
	vAssert("C12.snps.output-independent-of-schedule", got == run())
}

// VH_C12_snps_arrival: the re-ordering writer restores input order for every arrival order of the records.
func VH_C12_snps_arrival() {
	N := vParam("N")
	lines := make([]snpLine, N)
	exp := "query,SNPs\n"
	for i := 0; i < N; i++ {
		lines[i] = snpLine{queryname: "s" + strconv.Itoa(i), snps: []string{"A" + strconv.Itoa(i+1) + "C", "G" + strconv.Itoa(i+9) + "T"}, idx: i}
		if i == 1 {
			lines[i].snps = []string{}
		}
		exp += "s" + strconv.Itoa(i) + ","
		if i != 1 {
			exp += "A" + strconv.Itoa(i+1) + "C|G" + strconv.Itoa(i+9) + "T"
		}
		exp += "\n"
	}
	used := make([]bool, N)
	ch := make(chan snpLine, N)
	for i := 0; i < N; i++ {
		c := vChoice(vName("arrive", i), N)
		vAssume(!used[c])
		used[c] = true
		ch <- lines[c]
	}
	close(ch)
	w := &vCapture{}
	cErr := make(chan error, 1)
	cDone := make(chan bool, 1)
	writeOutput(w, ch, cErr, cDone)
	vAssert("C12.snps.writer-restores-input-order", string(w.buf) == exp && len(cDone) == 1)
}

// VH_C12_snps_maporder: the aggregate writer ranges over a map; its output must not depend on the order.
func VH_C12_snps_maporder() {
	mk := func() chan snpLine {
		ch := make(chan snpLine, 3)
		ch <- snpLine{queryname: "a", snps: []string{"A1C", "G3T"}, idx: 0}
		ch <- snpLine{queryname: "b", snps: []string{"A1T", "G3T", "C2A"}, idx: 1}
		ch <- snpLine{queryname: "c", snps: []string{"A1C"}, idx: 2}
		close(ch)
		return ch
	}
	run := func() string {
		w := &vCapture{}
		cErr := make(chan error, 4)
		cDone := make(chan bool, 1)
		aggregateWriteOutput(w, 0, mk(), cErr, cDone)
		return string(w.buf)
	}
	base := run()
	vMapOrder(true)
	vAssert("C12.snps.aggregate-independent-of-map-order", run() == base)
}
