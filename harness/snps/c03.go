package snps

import (
	"bytes"
	"strconv"

	"github.com/virus-evolution/gofasta/pkg/encoding"
	"github.com/virus-evolution/gofasta/pkg/fastaio"
)

const sigma34 = "ACGTRYSWKMBDHVN-?acgtryswkmbdhvn"

// vBaseSetTable is the independent reference semantics: symbol -> set of bases (A=1,C=2,G=4,T=8);
// 255 marks a byte outside the alphabet. Built as a table so that a symbolic lookup does not fork.
func vBaseSetTable(hardGaps bool) [256]byte {
	var t [256]byte
	for i := range t {
		t[i] = 255
	}
	set := func(cs string, v byte) {
		for i := 0; i < len(cs); i++ {
			t[cs[i]] = v
		}
	}
	set("Aa", 1)
	set("Cc", 2)
	set("Gg", 4)
	set("Tt", 8)
	set("Rr", 1|4)
	set("Yy", 2|8)
	set("Ss", 2|4)
	set("Ww", 1|8)
	set("Kk", 4|8)
	set("Mm", 1|2)
	set("Bb", 2|4|8)
	set("Dd", 1|4|8)
	set("Hh", 1|2|8)
	set("Vv", 1|2|4)
	set("Nn?", 15)
	if hardGaps {
		t['-'] = 0
	} else {
		t['-'] = 15
	}
	return t
}

func vUpperTable() [256]byte {
	var t [256]byte
	for i := range t {
		t[i] = byte(i)
		if i >= 'a' && i <= 'z' {
			t[i] = byte(i - 32)
		}
	}
	return t
}

// VH_C03_getSNPs: getSNPs + writeOutput on N queries of width W against a reference, all symbols symbolic.
func VH_C03_getSNPs() {
	W := vParam("W")
	N := vParam("N")
	hard := vBool("hardGaps")
	var EA [256]byte
	if hard {
		EA = encoding.MakeEncodingArrayHardGaps()
	} else {
		EA = encoding.MakeEncodingArray()
	}
	refTxt := make([]byte, W)
	ref := make([]byte, W)
	for i := 0; i < W; i++ {
		refTxt[i] = vNuc(vName("r", i), sigma34)
		ref[i] = EA[refTxt[i]]
	}
	qTxt := make([][]byte, N)
	cFR := make(chan fastaio.EncodedFastaRecord, N)
	// records arrive at the worker in input order; the writer gets them in an arbitrary order below
	for n := 0; n < N; n++ {
		qTxt[n] = make([]byte, W)
		seq := make([]byte, W)
		for i := 0; i < W; i++ {
			qTxt[n][i] = vNuc(vName("q", n, i), sigma34)
			seq[i] = EA[qTxt[n][i]]
		}
		cFR <- fastaio.EncodedFastaRecord{ID: "s" + strconv.Itoa(n), Seq: seq, Idx: n}
	}
	close(cFR)
	cSNPs := make(chan snpLine, N)
	cErr := make(chan error, N+1)
	getSNPs(ref, cFR, cSNPs, cErr)
	vAssert("C03.no-error", len(cErr) == 0)
	vAssert("C03.one-line-per-record", len(cSNPs) == N)
	close(cSNPs)

	w := &vCapture{}
	cDone := make(chan bool, 1)
	writeOutput(w, cSNPs, cErr, cDone)
	vAssert("C03.writer-done", len(cDone) == 1 && len(cErr) == 0)

	// expected text from the definition
	BS := vBaseSetTable(hard)
	UP := vUpperTable()
	exp := "query,SNPs\n"
	for n := 0; n < N; n++ {
		exp += "s" + strconv.Itoa(n) + ","
		first := true
		for i := 0; i < W; i++ {
			if BS[refTxt[i]]&BS[qTxt[n][i]] == 0 {
				if !first {
					exp += "|"
				}
				first = false
				exp += string([]byte{UP[refTxt[i]]}) + strconv.Itoa(i+1) + string([]byte{UP[qTxt[n][i]]})
			}
		}
		exp += "\n"
	}
	got := string(w.buf)
	vAssert("C03.output-equals-definition", got == exp)
}

type vCapture struct {
	buf    []byte
	writes int
}

func (c *vCapture) Write(p []byte) (int, error) {
	c.buf = append(c.buf, p...)
	c.writes++
	return len(p), nil
}

// VH_C03_SNPs_e2e: the whole command function (readers, worker pool, writer, goroutines and selects) on a
// symbolic alignment rendered as FASTA text.
func VH_C03_SNPs_e2e() {
	W := vParam("W")
	N := vParam("N")
	hard := vBool("hardGaps")
	BS := vBaseSetTable(hard)
	UP := vUpperTable()
	refTxt := make([]byte, W)
	for i := 0; i < W; i++ {
		refTxt[i] = vNuc(vName("r", i), sigma34)
	}
	refFile := append([]byte(">ref\n"), refTxt...)
	refFile = append(refFile, '\n')
	qTxt := make([][]byte, N)
	var aln []byte
	for n := 0; n < N; n++ {
		qTxt[n] = make([]byte, W)
		for i := 0; i < W; i++ {
			qTxt[n][i] = vNuc(vName("q", n, i), sigma34)
		}
		aln = append(aln, []byte(">s"+strconv.Itoa(n)+" descr\n")...)
		aln = append(aln, qTxt[n]...)
		aln = append(aln, '\n')
	}
	w := &vCapture{}
	err := SNPs(bytes.NewReader(refFile), bytes.NewReader(aln), hard, false, 0, w)
	vAssert("C03.e2e.no-error", err == nil)
	exp := "query,SNPs\n"
	for n := 0; n < N; n++ {
		exp += "s" + strconv.Itoa(n) + ","
		first := true
		for i := 0; i < W; i++ {
			if BS[refTxt[i]]&BS[qTxt[n][i]] == 0 {
				if !first {
					exp += "|"
				}
				first = false
				exp += string([]byte{UP[refTxt[i]]}) + strconv.Itoa(i+1) + string([]byte{UP[qTxt[n][i]]})
			}
		}
		exp += "\n"
	}
	vAssert("C03.e2e.output-equals-definition", string(w.buf) == exp)
}


// VH_C03_wide: a 12-column alignment (positions >= 10) that equals the reference except at two columns placed
// anywhere, whole SNPs() end to end.
func VH_C03_wide() {
	W := vParam("W")
	hard := vBool("hardGaps")
	BS := vBaseSetTable(hard)
	UP := vUpperTable()
	ref := make([]byte, W)
	for i := range ref {
		ref[i] = "ACGT"[i%4]
	}
	var p1, p2 int
	if W <= 20 {
		p1 = vChoice("p1", W)
		p2 = vChoice("p2", W)
	} else {
		// long rows: the two columns sit where positions gain a digit, or at either end
		menu := []int{0, 8, 9, 10, 98, 99, 100, W - 1}
		p1 = menu[vChoice("p1", len(menu))]
		p2 = menu[vChoice("p2", len(menu))]
	}
	vAssume(p1 < p2)
	ref[p1] = vNuc("r1", sigma34)
	q := make([][]byte, 2)
	var aln []byte
	for n := 0; n < 2; n++ {
		q[n] = append([]byte{}, ref...)
		q[n][p1] = vNuc(vName("q", n, 1), sigma34)
		q[n][p2] = vNuc(vName("q", n, 2), sigma34)
		aln = append(aln, []byte(">s"+strconv.Itoa(n)+"\n")...)
		aln = append(aln, q[n]...)
		aln = append(aln, '\n')
	}
	refFile := append([]byte(">ref\n"), ref...)
	refFile = append(refFile, '\n')
	w := &vCapture{}
	err := SNPs(bytes.NewReader(refFile), bytes.NewReader(aln), hard, false, 0, w)
	vAssert("C03.wide.no-error", err == nil)
	exp := "query,SNPs\n"
	for n := 0; n < 2; n++ {
		exp += "s" + strconv.Itoa(n) + ","
		first := true
		for i := 0; i < W; i++ {
			if BS[ref[i]]&BS[q[n][i]] == 0 {
				if !first {
					exp += "|"
				}
				first = false
				exp += string([]byte{UP[ref[i]]}) + strconv.Itoa(i+1) + string([]byte{UP[q[n][i]]})
			}
		}
		exp += "\n"
	}
	vAssert("C03.wide.output-equals-definition", string(w.buf) == exp)
}
