package sam

import "bytes"

// VH_C18_sam_window: window coordinates outside 1..reference length, or start > end, are refused
// (fully symbolic 64-bit coordinates; -1 means unset).
func VH_C18_sam_window() {
	L := vInt("refLen")
	s := vInt("start")
	e := vInt("end")
	vAssume(L >= 1 && L <= 1<<40)
	ts, te, trim, err := checkArgs(L, s, e)
	es, ee := s, e
	if s == -1 {
		es = 1
	}
	if e == -1 {
		ee = L
	}
	bad := vOr(vOr(es < 1, es > L), vOr(vOr(ee < 1, ee > L), es > ee))
	if bad {
		vAssert("C18.sam.bad-window-refused", err != nil)
	} else {
		vAssert("C18.sam.good-window-accepted", err == nil && ts == es && te == ee && trim == (s != -1 || e != -1))
	}
}

// VH_C18_sam_commands: the command functions refuse bad windows, bad references and broken SAM streams:
// they return an error or abort (a Go panic / runtime deadlock abort is a non-zero exit), never a nil error.
func VH_C18_sam_commands() {
	samTxt := vSamText
	ref := []byte(">ref\nACGTAC\n")
	start, end := -1, -1
	kind := vChoice("kind", 7)
	switch kind {
	case 0: // window beyond the reference
		end = 7
	case 1: // start > end
		start, end = 4, 2
	case 2: // start 0
		start = 0
	case 3: // empty SAM stream
		samTxt = ""
	case 4: // header-less SAM stream
		samTxt = "q1\t0\tref\t2\t60\t4M\t*\t0\t0\tACGT\t*\n"
	case 5: // more than one record in --reference (toPairAlign / variants)
		ref = []byte(">ref\nACGTAC\n>r2\nACGTAC\n")
	case 6: // invalid symbol in --reference
		ref = []byte(">ref\nACXTAC\n")
	}
	vRaceDetect()
	vSchedExplore(vParam("DEV"))
	w := &vCapture{}
	var err error
	switch vChoice("cmd", 3) {
	case 0:
		if kind >= 5 {
			vCut() // toMultiAlign takes no reference
		}
		err = ToMultiAlign(bytes.NewReader([]byte(samTxt)), w, 0, start, end, false, 2)
	case 1:
		err = ToPairAlign(bytes.NewReader([]byte(samTxt)), bytes.NewReader(ref), "stdout", 0, start, end, false, false, 2)
	case 2:
		if kind <= 2 {
			vCut() // sam variants windows filter output, they are not validated against the reference
		}
		gb := "LOCUS       TEST 6 bp DNA\nFEATURES             Location/Qualifiers\n     CDS             1..6\n                     /gene=\"g\"\n                     /codon_start=1\n                     /translation=\"TY\"\nORIGIN\n        1 acgtac\n//\n"
		err = Variants(bytes.NewReader([]byte(samTxt)), bytes.NewReader(ref), true, bytes.NewReader([]byte(gb)), "gb", w, -1, -1, false, 0, false, 2)
	}
	vAssert("C18.sam.invalid-input-refused", err != nil)
}
