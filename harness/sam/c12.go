package sam

import "bytes"

// VH_C12_sam_sched: sam toMultiAlign / toPairAlign (stdout) / variants output does not depend on the
// goroutine schedule (bounded deviations).
func VH_C12_sam_sched() {
	vNumCPU(vParam("NCPU"))
	mode := vChoice("mode", 3)
	run := func(threads int) string {
		w := &vCapture{}
		var err error
		switch mode {
		case 0:
			err = ToMultiAlign(bytes.NewReader([]byte(vSamText)), w, 0, -1, -1, false, threads)
		case 1:
			vNote("toPairAlign-stdout-with-threads")
			vStdoutCapture()
			err = ToPairAlign(bytes.NewReader([]byte(vSamText)), bytes.NewReader([]byte(">ref\nACGTAC\n")), "stdout", 0, -1, -1, false, false, threads)
			return vStdout()
		default:
			gb := "LOCUS       TEST 6 bp DNA\nFEATURES             Location/Qualifiers\n     CDS             1..6\n                     /gene=\"g\"\n                     /codon_start=1\n                     /translation=\"TY\"\nORIGIN\n        1 acgtac\n//\n"
			err = Variants(bytes.NewReader([]byte(vSamText)), nil, false, bytes.NewReader([]byte(gb)), "gb", w, -1, -1, false, 0, false, threads)
		}
		vAssert("C12.sam.no-error", err == nil)
		return string(w.buf)
	}
	threads := 1 + vChoice("threads", 3)
	vRaceDetect()
	vSchedExplore(vParam("DEV"))
	got := run(threads)
	vSchedExplore(0)
	vAssert("C12.sam.output-independent-of-schedule", got == run(1))
}

// VH_C12_pairwriter_arrival: toPairAlign's stdout writer restores input order for every arrival order.
func VH_C12_pairwriter_arrival() {
	N := vParam("N")
	pairs := make([]alignPair, N)
	exp := ""
	for i := 0; i < N; i++ {
		q := "ACG" + string(rune('A'+i))
		pairs[i] = alignPair{ref: []byte("ACGT"), query: []byte(q), refname: "ref", queryname: "q" + itoa(i), idx: i}
		exp += ">ref\nACGT\n>q" + itoa(i) + "\n" + q + "\n"
	}
	used := make([]bool, N)
	ch := make(chan alignPair, N)
	for i := 0; i < N; i++ {
		c := vChoice(vName("arrive", i), N)
		vAssume(!used[c])
		used[c] = true
		ch <- pairs[c]
	}
	close(ch)
	cDone := make(chan bool, 1)
	cErr := make(chan error, 8)
	vStdoutCapture()
	writePairwiseAlignment("stdout", 0, ch, cDone, cErr, false)
	got := vStdout()
	vAssert("C12.sam.pair-writer-restores-input-order", got == exp && len(cDone) == 1 && len(cErr) == 0)
}

// VH_C12_sam_long: the same question as VH_C12_sam_sched on inputs beyond the small ones: a 150-base reference
// and queries with deletions and insertions of 129-131 bases (longer than any fixed-size scratch buffer one is
// likely to meet), 1..3 threads, schedules explored, data-race analysis on.
func VH_C12_sam_long() {
	vNumCPU(2)
	ref := make([]byte, 150)
	for i := range ref {
		ref[i] = "ACGT"[i%4]
	}
	rep := func(b byte, n int) string {
		s := make([]byte, n)
		for i := range s {
			s[i] = b
		}
		return string(s)
	}
	samTxt := "@HD\tVN:1.6\n@SQ\tSN:ref\tLN:150\n" +
		"q1\t0\tref\t1\t60\t5M130D15M\t*\t0\t0\t" + rep('A', 20) + "\t*\n" +
		"q2\t0\tref\t1\t60\t10M129D11M\t*\t0\t0\t" + rep('C', 21) + "\t*\n" +
		"q3\t0\tref\t1\t60\t4M131I4M131D11M\t*\t0\t0\t" + rep('G', 150) + "\t*\n" +
		"q4\t0\tref\t1\t60\t150M\t*\t0\t0\t" + string(ref) + "\t*\n"
	refFasta := []byte(">ref\n" + string(ref) + "\n")
	mode := vChoice("mode", 2)
	run := func(threads int) string {
		w := &vCapture{}
		var err error
		if mode == 0 {
			err = ToMultiAlign(bytes.NewReader([]byte(samTxt)), w, 0, -1, -1, false, threads)
		} else {
			vStdoutCapture()
			err = ToPairAlign(bytes.NewReader([]byte(samTxt)), bytes.NewReader(refFasta), "stdout", 0, -1, -1, false, false, threads)
			out := vStdout()
			vAssert("C12.long.no-error", err == nil)
			return out
		}
		vAssert("C12.long.no-error", err == nil)
		return string(w.buf)
	}
	threads := 1 + vChoice("threads", 3)
	vRaceDetect()
	vSchedExplore(vParam("DEV"))
	got := run(threads)
	vSchedExplore(0)
	vAssert("C12.long.output-independent-of-schedule", got == run(1))
}
