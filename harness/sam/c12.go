package sam

import "bytes"

// VH_C12_sam_sched: sam toMultiAlign / toPairAlign (stdout) / variants output does not depend on the
// goroutine schedule (bounded deviations).
func VH_C12_sam_sched() {
	vNumCPU(vParam("NCPU"))
	mode := vChoice("mode", 3)
	run := func() string {
		w := &vCapture{}
		var err error
		switch mode {
		case 0:
			err = ToMultiAlign(bytes.NewReader([]byte(vSamText)), w, 0, -1, -1, false, 2)
		case 1:
			vNote("toPairAlign-stdout-with-threads")
			vStdoutCapture()
			err = ToPairAlign(bytes.NewReader([]byte(vSamText)), bytes.NewReader([]byte(">ref\nACGTAC\n")), "stdout", 0, -1, -1, false, false, 2)
			return vStdout()
		default:
			gb := "LOCUS       TEST 6 bp DNA\nFEATURES             Location/Qualifiers\n     CDS             1..6\n                     /gene=\"g\"\n                     /codon_start=1\n                     /translation=\"TY\"\nORIGIN\n        1 acgtac\n//\n"
			err = Variants(bytes.NewReader([]byte(vSamText)), nil, false, bytes.NewReader([]byte(gb)), "gb", w, -1, -1, false, 0, false, 2)
		}
		vAssert("C12.sam.no-error", err == nil)
		return string(w.buf)
	}
	base := run()
	vSchedExplore(vParam("DEV"))
	vAssert("C12.sam.output-independent-of-schedule", run() == base)
}
