package sam

import "bytes"

// VH_C12_sam_sched: sam toMultiAlign / toPairAlign (stdout) / variants output does not depend on the
// goroutine schedule (bounded deviations).
func VH_C12_sam_sched() {
	vNumCPU(vParam("NCPU"))
	mode := vChoice("mode", 3)
	run := func(threads int) string {
		w := &vCapture{}
		var err error
		switch mode {
		case 0:
			err = ToMultiAlign(bytes.NewReader([]byte(vSamText)), w, 0, -1, -1, false, threads)
		case 1:
			vNote("toPairAlign-stdout-with-threads")
			vStdoutCapture()
			err = ToPairAlign(bytes.NewReader([]byte(vSamText)), bytes.NewReader([]byte(">ref\nACGTAC\n")), "stdout", 0, -1, -1, false, false, threads)
			return vStdout()
		default:
			gb := "LOCUS       TEST 6 bp DNA\nFEATURES             Location/Qualifiers\n     CDS             1..6\n                     /gene=\"g\"\n                     /codon_start=1\n                     /translation=\"TY\"\nORIGIN\n        1 acgtac\n//\n"
			err = Variants(bytes.NewReader([]byte(vSamText)), nil, false, bytes.NewReader([]byte(gb)), "gb", w, -1, -1, false, 0, false, threads)
		}
		vAssert("C12.sam.no-error", err == nil)
		return string(w.buf)
	}
	base := run(1)
	threads := 1 + vChoice("threads", 3)
	vRaceDetect()
	vSchedExplore(vParam("DEV"))
	vAssert("C12.sam.output-independent-of-schedule", run(threads) == base)
}

// VH_C12_pairwriter_arrival: toPairAlign's stdout writer restores input order for every arrival order.
func VH_C12_pairwriter_arrival() {
	N := vParam("N")
	pairs := make([]alignPair, N)
	exp := ""
	for i := 0; i < N; i++ {
		q := "ACG" + string(rune('A'+i))
		pairs[i] = alignPair{ref: []byte("ACGT"), query: []byte(q), refname: "ref", queryname: "q" + itoa(i), idx: i}
		exp += ">ref\nACGT\n>q" + itoa(i) + "\n" + q + "\n"
	}
	used := make([]bool, N)
	ch := make(chan alignPair, N)
	for i := 0; i < N; i++ {
		c := vChoice(vName("arrive", i), N)
		vAssume(!used[c])
		used[c] = true
		ch <- pairs[c]
	}
	close(ch)
	cDone := make(chan bool, 1)
	cErr := make(chan error, 8)
	vStdoutCapture()
	writePairwiseAlignment("stdout", 0, ch, cDone, cErr, false)
	got := vStdout()
	vAssert("C12.sam.pair-writer-restores-input-order", got == exp && len(cDone) == 1 && len(cErr) == 0)
}
