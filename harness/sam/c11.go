package sam

import (
	"bytes"
	"strconv"

	biogosam "github.com/biogo/hts/sam"
	"github.com/virus-evolution/gofasta/pkg/alphabet"
	"github.com/virus-evolution/gofasta/pkg/encoding"
	"github.com/virus-evolution/gofasta/pkg/fastaio"
	"github.com/virus-evolution/gofasta/pkg/variants"
)

func vFormatAll(vs []variants.Variant, appendSNP bool) string {
	s := ""
	for i, v := range vs {
		f, err := variants.FormatVariant(v, appendSNP)
		vAssert("format-variant-ok", err == nil)
		if i > 0 {
			s += "|"
		}
		s += f
	}
	return s
}

// vAnnotation: one forward CDS over reference positions 1..3 (translation from the real Translate), the
// rest intergenic.
func vAnnotation(ref []byte) ([]variants.Region, []int) {
	L := len(ref)
	tr, err := alphabet.Translate(string(ref[0:3]), false)
	vAssert("translate-ok", err == nil)
	cds := []variants.Region{{Whichtype: "protein-coding", Name: "g", Start: 1, Stop: 3, Translation: tr, Strand: 1, Positions: []int{1, 2, 3}}}
	var inter []int
	for p := 4; p <= L; p++ {
		inter = append(inter, p)
	}
	return cds, inter
}

func vSamVariants(recs []biogosam.Record, ref []byte, cds []variants.Region, inter []int) (alignPair, variants.AnnoStructs, bool) {
	cSR := make(chan samRecords, 1)
	cSR <- samRecords{records: recs, idx: 0}
	close(cSR)
	cPair := make(chan alignPair, 1)
	cErr := make(chan error, 8)
	refCopy := make([]byte, len(ref))
	copy(refCopy, ref)
	blockToPairwiseAlignment(cSR, cPair, cErr, refCopy, false)
	if len(cPair) != 1 || len(cErr) != 0 {
		vAssert("C11.pair-built", false)
		return alignPair{}, variants.AnnoStructs{}, false
	}
	pair := <-cPair
	// keep a text copy: getVariantsSam encodes the rows in place
	keep := alignPair{ref: append([]byte{}, pair.ref...), query: append([]byte{}, pair.query...), queryname: pair.queryname}
	cP2 := make(chan alignPair, 1)
	cP2 <- pair
	close(cP2)
	cV := make(chan variants.AnnoStructs, 1)
	getVariantsSam(cds, inter, cP2, cV, cErr)
	if len(cV) != 1 || len(cErr) != 0 {
		vAssert("C11.sam-variants-produced", false)
		return keep, variants.AnnoStructs{}, false
	}
	return keep, <-cV, true
}

// vFastaVariants: the `variants` route: FASTA text -> real reader -> offsets -> GetVariantsPair.
func vFastaVariants(refRow, queRow []byte, cds []variants.Region, inter []int, width int) (variants.AnnoStructs, bool) {
	txt := ">ref\n" + wrap(string(refRow), width) + ">query\n" + wrap(string(queRow), width)
	recs, err := fastaio.ReadEncodeAlignmentToList(vReader(txt), false)
	if err != nil || len(recs) != 2 {
		vAssert("C11.fasta-form-readable", false)
		return variants.AnnoStructs{}, false
	}
	r2m, m2r := variants.GetMSAOffsets(recs[0].Seq)
	AS, err := variants.GetVariantsPair(recs[0].Seq, recs[1].Seq, recs[0].ID, recs[1].ID, recs[1].Idx, cds, inter, r2m, m2r)
	if err != nil {
		vAssert("C11.fasta-variants-ok", false)
		return AS, false
	}
	return AS, true
}

// VH_C11_agree: sam variants == variants on the toPairAlign FASTA form; and, without insertions, on the
// toMultiAlign row placed under the reference.
func VH_C11_agree() {
	L := vParam("L")
	K := vParam("K")
	O := vParam("O")
	ML := vParam("ML")
	ref, vs, recs := vPairInputs(L, K, O, ML, vPairOps())
	_, unique := vInsertions(vs, L)
	vAssume(unique)
	cds, inter := vAnnotation(ref)
	appendSNP := vBool("appendSNP")
	pair, A, ok := vSamVariants(recs, ref, cds, inter)
	if !ok {
		return
	}
	a := vFormatAll(A.Vs, appendSNP)
	B, ok := vFastaVariants(pair.ref, pair.query, cds, inter, 3)
	if !ok {
		return
	}
	vAssert("C11.sam-variants-equals-variants-on-toPairAlign-form", a == vFormatAll(B.Vs, appendSNP))
	hasIns, hasAligned := false, false
	for _, v := range vs {
		for _, t := range v.types {
			if t == vI {
				hasIns = true
			}
			if t == vM {
				hasAligned = true
			}
		}
	}
	// the toMultiAlign clause: queries without insertions and with at least one aligned base (a record
	// set that aligns no base at all has no first/last aligned position to flank)
	if !hasIns && hasAligned {
		for _, pad := range []bool{true, false} {
			raw, err := getSeqFromBlock(recs, L, false)
			vAssert("C11.toma-ok", err == nil)
			// classify: does the query leave reference positions at either end uncovered? Only then do
			// the --pad ('N') and default ('-') flanks differ.
			first, last := -1, -1
			for i := 0; i < L; i++ {
				if raw[i] != '*' && raw[i] != '-' {
					if first < 0 {
						first = i
					}
					last = i
				}
			}
			for i := 0; i < L; i++ {
				if raw[i] == '*' && (i < first || i > last) {
					vNote("query-leaves-reference-end-uncovered")
				}
			}
			fr := getFastaRecord(raw, "query", 0, false, pad, 1, L)
			C, ok := vFastaVariants(ref, []byte(fr.Seq), cds, inter, 0)
			if ok && pad {
				vAssert("C11.sam-variants-equals-variants-on-toMultiAlign-pad-row", a == vFormatAll(C.Vs, appendSNP))
			} else if ok {
				vAssert("C11.sam-variants-equals-variants-on-toMultiAlign-row", a == vFormatAll(C.Vs, appendSNP))
			}
		}
	}
}

// VH_C05_sam: indels of a single-record query, straight from its CIGAR, in reference coordinates.
func VH_C05_sam() {
	L := vParam("L")
	O := vParam("O")
	ML := vParam("ML")
	ref, vs, recs := vPairInputs(L, 1, O, ML, vPairOps())
	_, unique := vInsertions(vs, L)
	vAssume(unique)
	_, A, ok := vSamVariants(recs, ref, nil, nil)
	if !ok {
		return
	}
	v := vs[0]
	// expected from the CIGAR: ins at the reference boundary, del over reference bases; adjacent
	// operators of one kind merge; deletions touching reference base 1 or L are not reported
	insLen := make([]int, L+1)
	deleted := make([]bool, L+2)
	r := v.pos
	for k, t := range v.types {
		n := v.lens[k]
		switch t {
		case vM, vEq, vX, vN:
			// N skips reference bases without deleting them (the query is unknown there)
			r += n
		case vD:
			for j := 0; j < n; j++ {
				deleted[r+1+j] = true
			}
			r += n
		case vI:
			insLen[r] += n
		}
	}
	exp := ""
	add := func(s string) {
		if exp != "" {
			exp += "|"
		}
		exp += s
	}
	for p := 0; p <= L; p++ {
		if p >= 1 && deleted[p] && !deleted[p-1] {
			l := 0
			for q := p; q <= L && deleted[q]; q++ {
				l++
			}
			if p != 1 && p+l-1 != L {
				add("del:" + strconv.Itoa(p) + ":" + strconv.Itoa(l))
			}
		}
		if insLen[p] > 0 {
			add("ins:" + strconv.Itoa(p) + ":" + strconv.Itoa(insLen[p]))
		}
	}
	vAssert("C05.sam.indels-from-cigar-in-reference-coordinates", vFormatAll(A.Vs, false) == exp)
	_ = encoding.MakeEncodingArray
}

// VH_C11_history: two queries handled one after the other by the same sam-variants worker (as with -t 1):
// the second query's mutations must not depend on the first (no state carried between pairs).
func VH_C11_history() {
	L := vParam("L")
	O := vParam("O")
	ML := vParam("ML")
	ref := make([]byte, L)
	for i := range ref {
		ref[i] = vNuc(vName("ref", i), "ACGT")
	}
	cds, inter := vAnnotation(ref)
	// two single-record queries with arbitrary CIGARs
	v1 := vSamRecord("q1", 0, L, O, ML, []int{vM, vI, vD})
	v2 := vSamRecord("q2", 1, L, O, ML, []int{vM, vI, vD})
	build := func(v vRec, idx int) (alignPair, bool) {
		cSR := make(chan samRecords, 1)
		cSR <- samRecords{records: []biogosam.Record{v.rec}, idx: idx}
		close(cSR)
		cPair := make(chan alignPair, 1)
		cErr := make(chan error, 4)
		refCopy := append([]byte{}, ref...)
		blockToPairwiseAlignment(cSR, cPair, cErr, refCopy, false)
		if len(cPair) != 1 {
			vAssert("C11.history.pair-built", false)
			return alignPair{}, false
		}
		return <-cPair, true
	}
	p1, ok1 := build(v1, 0)
	p2, ok2 := build(v2, 1)
	if !ok1 || !ok2 {
		return
	}
	t1 := alignPair{ref: append([]byte{}, p1.ref...), query: append([]byte{}, p1.query...)}
	t2 := alignPair{ref: append([]byte{}, p2.ref...), query: append([]byte{}, p2.query...)}
	cP := make(chan alignPair, 2)
	cP <- p1
	cP <- p2
	close(cP)
	cV := make(chan variants.AnnoStructs, 2)
	cErr := make(chan error, 4)
	getVariantsSam(cds, inter, cP, cV, cErr)
	vAssert("C11.history.two-results", len(cV) == 2 && len(cErr) == 0)
	if len(cV) != 2 {
		return
	}
	A1 := <-cV
	A2 := <-cV
	B1, okb1 := vFastaVariants(t1.ref, t1.query, cds, inter, 0)
	B2, okb2 := vFastaVariants(t2.ref, t2.query, cds, inter, 0)
	if okb1 {
		vAssert("C11.history.first-query-agrees", vFormatAll(A1.Vs, true) == vFormatAll(B1.Vs, true))
	}
	if okb2 {
		vAssert("C11.history.second-query-independent-of-first", vFormatAll(A2.Vs, true) == vFormatAll(B2.Vs, true))
	}
}

// VH_C11_e2e: the whole command functions: sam.Variants() on SAM text versus variants.Variants() on the
// FASTA that sam.ToPairAlign() writes for the same query (GenBank annotation, reference from the file or
// from the annotation), with symbolic bases incl. the first and last reference positions.
func VH_C11_e2e() {
	ref := []byte("ACGTTGCAAATG")
	L := len(ref)
	gbtr, _ := alphabet.Translate(string(ref[3:9]), false)
	gb := "LOCUS       TEST 12 bp DNA\nFEATURES             Location/Qualifiers\n     CDS             4..9\n                     /gene=\"g\"\n                     /codon_start=1\n                     /translation=\"" + gbtr + "\"\nORIGIN\n        1 " + string(ref) + "\n//\n"
	// one query covering the whole reference, with symbolic bases at five positions incl. both ends
	q := append([]byte{}, ref...)
	for _, p := range []int{0, 4, 5, 8, L - 1} {
		q[p] = vNuc(vName("q", p), "ACGT")
	}
	cigar := "12M"
	seq := string(q)
	if vBool("withInsertion") {
		cigar = "6M1I6M"
		seq = string(q[:6]) + string([]byte{vNuc("ins", "ACGT")}) + string(q[6:])
	}
	samTxt := "@HD\tVN:1.6\n@SQ\tSN:ref\tLN:12\nq1\t0\tref\t1\t60\t" + cigar + "\t*\t0\t0\t" + seq + "\t*\n"
	refFasta := []byte(">ref\n" + string(ref) + "\n")
	refFromFile := vBool("refFromFile")
	w1 := &vCapture{}
	e1 := Variants(bytes.NewReader([]byte(samTxt)), bytes.NewReader(refFasta), refFromFile, bytes.NewReader([]byte(gb)), "gb", w1, -1, -1, false, 0, true, 2)
	vAssert("C11.e2e.sam-variants-ok", e1 == nil)
	vStdoutCapture()
	e2 := ToPairAlign(bytes.NewReader([]byte(samTxt)), bytes.NewReader(refFasta), "stdout", 0, -1, -1, false, false, 2)
	pairFasta := vStdout()
	vAssert("C11.e2e.topairalign-ok", e2 == nil && len(pairFasta) > 0)
	w2 := &vCapture{}
	e3 := variants.Variants(bytes.NewReader([]byte(pairFasta)), false, "ref", bytes.NewReader([]byte(gb)), "gb", w2, -1, -1, false, 0, true, 2)
	vAssert("C11.e2e.variants-ok", e3 == nil)
	vAssert("C11.e2e.sam-variants-equals-variants-on-toPairAlign-output", string(w1.buf) == string(w2.buf))
}

// VH_C11_e2e_opts (same comparison with --aggregate and --start/--end windows, fewer symbolic bases):
// VH_C11_e2e: the whole command functions: sam.Variants() on SAM text versus variants.Variants() on the
// FASTA that sam.ToPairAlign() writes for the same query (GenBank annotation, reference from the file or
// from the annotation), with symbolic bases incl. the first and last reference positions.
func VH_C11_e2e_opts() {
	ref := []byte("ACGTTGCAAATG")
	L := len(ref)
	gbtr, _ := alphabet.Translate(string(ref[3:9]), false)
	gb := "LOCUS       TEST 12 bp DNA\nFEATURES             Location/Qualifiers\n     CDS             4..9\n                     /gene=\"g\"\n                     /codon_start=1\n                     /translation=\"" + gbtr + "\"\nORIGIN\n        1 " + string(ref) + "\n//\n"
	// one query covering the whole reference, with symbolic bases at five positions incl. both ends
	q := append([]byte{}, ref...)
	for _, p := range []int{4, 8, L - 1} {
		q[p] = vNuc(vName("q", p), "ACGT")
	}
	cigar := "12M"
	seq := string(q)
	if vBool("withInsertion") {
		cigar = "6M1I6M"
		seq = string(q[:6]) + string([]byte{vNuc("ins", "ACGT")}) + string(q[6:])
	}
	samTxt := "@HD\tVN:1.6\n@SQ\tSN:ref\tLN:12\nq1\t0\tref\t1\t60\t" + cigar + "\t*\t0\t0\t" + seq + "\t*\n"
	refFasta := []byte(">ref\n" + string(ref) + "\n")
	refFromFile := vBool("refFromFile")
	aggregate := vBool("aggregate")
	win := [][2]int{{-1, -1}, {2, 8}, {5, 12}}[vChoice("window", 3)]
	w1 := &vCapture{}
	e1 := Variants(bytes.NewReader([]byte(samTxt)), bytes.NewReader(refFasta), refFromFile, bytes.NewReader([]byte(gb)), "gb", w1, win[0], win[1], aggregate, 0, true, 2)
	vAssert("C11.e2e-opts.sam-variants-ok", e1 == nil)
	vStdoutCapture()
	e2 := ToPairAlign(bytes.NewReader([]byte(samTxt)), bytes.NewReader(refFasta), "stdout", 0, -1, -1, false, false, 2)
	pairFasta := vStdout()
	vAssert("C11.e2e-opts.topairalign-ok", e2 == nil && len(pairFasta) > 0)
	w2 := &vCapture{}
	e3 := variants.Variants(bytes.NewReader([]byte(pairFasta)), false, "ref", bytes.NewReader([]byte(gb)), "gb", w2, win[0], win[1], aggregate, 0, true, 2)
	vAssert("C11.e2e-opts.variants-ok", e3 == nil)
	vAssert("C11.e2e-opts.sam-variants-equals-variants-on-toPairAlign-output", string(w1.buf) == string(w2.buf))
}
