package sam

import (
	"bytes"
	biogosam "github.com/biogo/hts/sam"
	"github.com/virus-evolution/gofasta/pkg/fastaio"
)

// VH_C01_one_record: one record with an arbitrary CIGAR is projected exactly onto reference coordinates.
func VH_C01_one_record() {
	L := vParam("L")
	O := vParam("O")
	ML := vParam("ML")
	v := vSamRecord("q", 0, L, O, ML, vAllOps)
	row, err := getSeqFromBlock([]biogosam.Record{v.rec}, L, false)
	vAssert("C01.a.no-error", err == nil)
	vAssert("C01.a.row-has-reference-length", len(row) == L)
	if len(row) != L {
		return
	}
	want := vProject(v, L)
	for i := 0; i < L; i++ {
		vAssert("C01.a.column-is-the-aligned-base-or-gap", row[i] == want[i])
	}
}

const vRowAlphabet = "ACGTN-*"

// VH_C01_flatten: several records of one query: a base beats a deletion beats no coverage; two different
// bases give N; identical bases stay.
func VH_C01_flatten() {
	K := vParam("K")
	W := vParam("W")
	block := make([][]byte, K)
	for k := 0; k < K; k++ {
		block[k] = make([]byte, W)
		for j := 0; j < W; j++ {
			block[k][j] = vNuc(vName("b", k, j), vRowAlphabet)
		}
	}
	got := checkAndGetFlattenedSeq(block, "q")
	vAssert("C01.b.length", len(got) == W)
	for j := 0; j < W; j++ {
		// definition
		anyLetter := false
		conflict := false
		var letter byte
		anyDel := false
		for k := 0; k < K; k++ {
			c := block[k][j]
			isLetter := vAnd(c != '-', c != '*')
			conflict = vOr(conflict, vAnd(vAnd(isLetter, anyLetter), c != letter))
			letter = vIteB(vAnd(isLetter, !anyLetter), c, letter)
			anyLetter = vOr(anyLetter, isLetter)
			anyDel = vOr(anyDel, c == '-')
		}
		want := vIteB(conflict, 'N', vIteB(anyLetter, letter, vIteB(anyDel, '-', '*')))
		vAssert("C01.b.precedence", got[j] == want)
	}
}

// VH_C01_flank_window: uncovered positions are '-' outside the first/last aligned base and 'N' between
// them (all 'N' with --pad); a window is columns s..e (with --pad: everything outside is 'N').
func VH_C01_flank_window() {
	L := vParam("L")
	raw := make([]byte, L)
	orig := make([]byte, L)
	for i := 0; i < L; i++ {
		raw[i] = vNuc(vName("raw", i), vRowAlphabet)
		orig[i] = raw[i]
	}
	pad := vBool("pad")
	trim := vBool("trim")
	s, e := 1, L
	if trim {
		s = vChoice("s", L) + 1
		e = vChoice("e", L) + 1
		vAssume(s <= e)
	}
	fr := getFastaRecord(raw, "id", 7, trim, pad, s, e)
	vAssert("C01.c.meta", fr.ID == "id" && fr.Idx == 7)
	// definition of the untrimmed row
	first, last := -1, -1
	for i := 0; i < L; i++ {
		if vAnd(orig[i] != '-', orig[i] != '*') {
			if first < 0 {
				first = i
			}
			last = i
		}
	}
	full := make([]byte, L)
	for i := 0; i < L; i++ {
		c := orig[i]
		if c == '*' {
			if pad {
				c = 'N'
			} else if first < 0 || i < first || i > last {
				c = '-'
			} else {
				c = 'N'
			}
		}
		full[i] = c
	}
	if !trim {
		vAssert("C01.c.untrimmed-length", len(fr.Seq) == L)
		if len(fr.Seq) == L {
			for i := 0; i < L; i++ {
				vAssert("C01.c.untrimmed-flanks-and-gaps", fr.Seq[i] == full[i])
			}
		}
		return
	}
	if pad {
		vAssert("C15.toma.pad-window-keeps-length", len(fr.Seq) == L)
		if len(fr.Seq) == L {
			for i := 0; i < L; i++ {
				if i < s-1 || i >= e {
					vAssert("C15.toma.pad-outside-window-is-N", fr.Seq[i] == 'N')
				} else {
					vAssert("C15.toma.pad-inside-window-unchanged", fr.Seq[i] == full[i])
				}
			}
		}
		return
	}
	vAssert("C15.toma.window-length", len(fr.Seq) == e-s+1)
	if len(fr.Seq) == e-s+1 {
		for i := s - 1; i < e; i++ {
			vAssert("C15.toma.window-is-columns-s-to-e-of-untrimmed", fr.Seq[i-(s-1)] == full[i])
		}
	}
}

// VH_C01_wiring: the worker and the re-ordering writer: one FASTA record per query, in input order,
// whatever order the records reach the writer in; several records per query are flattened.
func VH_C01_wiring() {
	L := vParam("L")
	Q := vParam("Q")
	K := vParam("K")
	wrapw := vParam("WRAP")
	cSR := make(chan samRecords, Q)
	var recs [][]vRec
	n := 0
	for q := 0; q < Q; q++ {
		var group []biogosam.Record
		var vr []vRec
		k := 1
		if q == 0 {
			k = 1 + vChoice(vName("nrec", q), K)
		}
		for j := 0; j < k; j++ {
			v := vSamRecord("query"+string(rune('A'+q)), n, L, 1, 2, []int{vM})
			n++
			vr = append(vr, v)
			group = append(group, v.rec)
		}
		recs = append(recs, vr)
		cSR <- samRecords{records: group, idx: q}
	}
	close(cSR)
	cFR := make(chan fastaio.FastaRecord, Q)
	cErr := make(chan error, 4*Q+4)
	blockToFastaRecord(cSR, cFR, cErr, L, false, false, 1, L, false)
	vAssert("C01.d.one-record-per-query", len(cFR) == Q && len(cErr) == 0)
	got := make([]fastaio.FastaRecord, Q)
	for q := 0; q < Q; q++ {
		got[q] = <-cFR
	}
	// expected sequence per query from the reference model
	exp := ""
	for q := 0; q < Q; q++ {
		rows := make([][]byte, len(recs[q]))
		for j := range recs[q] {
			rows[j] = vProject(recs[q][j], L)
		}
		flat := rows[0]
		if len(rows) > 1 {
			flat = checkAndGetFlattenedSeq(rows, "x") // decided separately by VH_C01_flatten
		}
		fr := getFastaRecord(flat, "x", 0, false, false, 1, L) // decided separately by VH_C01_flank_window
		vAssert("C01.d.sequence-is-projection", got[q].Seq == fr.Seq && got[q].ID == "query"+string(rune('A'+q)) && got[q].Idx == q)
		exp += ">" + got[q].ID + "\n"
		if wrapw > 0 {
			for i := 0; i < len(fr.Seq); i += wrapw {
				j := i + wrapw
				if j > len(fr.Seq) {
					j = len(fr.Seq)
				}
				exp += fr.Seq[i:j] + "\n"
			}
		} else {
			exp += fr.Seq + "\n"
		}
	}
	// the writer receives the records in an arbitrary order
	order := make([]int, 0, Q)
	used := make([]bool, Q)
	for i := 0; i < Q; i++ {
		c := vChoice(vName("arrive", i), Q)
		vAssume(!used[c])
		used[c] = true
		order = append(order, c)
	}
	cW := make(chan fastaio.FastaRecord, Q)
	for _, i := range order {
		cW <- got[i]
	}
	close(cW)
	w := &vCapture{}
	cDone := make(chan bool, 1)
	if wrapw > 0 {
		fastaio.WriteWrapAlignment(cW, w, wrapw, cDone, cErr)
	} else {
		fastaio.WriteAlignment(cW, w, cDone, cErr)
	}
	vAssert("C01.d.writer-done", len(cDone) == 1 && len(cErr) == 0)
	vAssert("C01.d.output-in-input-order", string(w.buf) == exp)
}

// VH_C01_e2e: the whole ToMultiAlign command function on SAM text (biogo parser, grouping, flag filter,
// worker goroutines, writer) for a small file whose bases are symbolic.
func VH_C01_e2e() {
	b := func(n string) string { return string([]byte{vNuc(n, "ACGT")}) }
	samTxt := "@HD\tVN:1.6\n@SQ\tSN:ref\tLN:6\n" +
		"q1\t0\tref\t2\t60\t2M1I2M\t*\t0\t0\t" + b("a0") + b("a1") + b("a2") + b("a3") + b("a4") + "\t*\n" +
		"u1\t4\t*\t0\t0\t*\t*\t0\t0\tACGT\t*\n" +
		"q2\t0\tref\t1\t60\t1M2D2M\t*\t0\t0\t" + b("b0") + b("b1") + b("b2") + "\t*\n" +
		"q2\t256\tref\t1\t60\t3M\t*\t0\t0\tTTT\t*\n" +
		"q2\t2048\tref\t5\t60\t1S2M\t*\t0\t0\tG" + b("b3") + b("b4") + "\t*\n"
	w := &vCapture{}
	err := ToMultiAlign(bytes.NewReader([]byte(samTxt)), w, 0, -1, -1, false, 2)
	vAssert("C01.e2e.no-error", err == nil)
	exp := ">q1\n-" + b("a0") + b("a1") + b("a3") + b("a4") + "-\n" +
		">q2\n" + b("b0") + "--" + b("b1") + vFlat(b("b2"), b("b3")) + b("b4") + "\n"
	vAssert("C01.e2e.output", string(w.buf) == exp)
}

func vFlat(a, b string) string {
	if a == b {
		return a
	}
	return "N"
}

// VH_C01_grouping: the whole ToMultiAlign() on SAM text whose FLAG values, query names and positions are
// explored by solver case split: unmapped (0x4) and secondary (0x100) records never contribute and never
// split or merge groups; consecutive kept records of one name form one FASTA record; records keep input order.
func VH_C01_grouping() {
	NR := vParam("NR")
	flagset := []int{0, 2064, 4, 272}
	type rec struct {
		name string
		flag int
		pos  int
		seq  []byte
	}
	recs := make([]rec, NR)
	txt := "@HD\tVN:1.6\n@SQ\tSN:ref\tLN:4\n"
	for i := 0; i < NR; i++ {
		r := rec{}
		if vBool(vName("nameB", i)) {
			r.name = "b"
		} else {
			r.name = "a"
		}
		r.flag = flagset[vChoice(vName("flag", i), len(flagset))]
		r.pos = 1 + 2*vChoice(vName("half", i), 2) // 1 or 3
		r.seq = []byte{vNuc(vName("s", i, 0), "ACGT"), vNuc(vName("s", i, 1), "ACGT")}
		recs[i] = r
		txt += r.name + "\t" + itoa(r.flag) + "\tref\t" + itoa(r.pos) + "\t60\t2M\t*\t0\t0\t" + string(r.seq) + "\t*\n"
	}
	w := &vCapture{}
	err := ToMultiAlign(bytes.NewReader([]byte(txt)), w, 0, -1, -1, false, 2)
	vAssert("C01.grp.no-error", err == nil)
	// definition
	exp := ""
	cur := ""
	var row []byte
	flush := func() {
		if cur == "" {
			return
		}
		first, last := -1, -1
		for i := 0; i < 4; i++ {
			if row[i] != '*' {
				if first < 0 {
					first = i
				}
				last = i
			}
		}
		out := make([]byte, 4)
		for i := 0; i < 4; i++ {
			c := row[i]
			if c == '*' {
				if i < first || i > last {
					c = '-'
				} else {
					c = 'N'
				}
			}
			out[i] = c
		}
		exp += ">" + cur + "\n" + string(out) + "\n"
	}
	for _, r := range recs {
		if r.flag&4 != 0 || r.flag&256 != 0 {
			continue
		}
		if r.name != cur {
			flush()
			cur = r.name
			row = []byte("****")
		}
		for j := 0; j < 2; j++ {
			p := r.pos - 1 + j
			if row[p] == '*' {
				row[p] = r.seq[j]
			} else if row[p] != r.seq[j] {
				row[p] = 'N'
			}
		}
	}
	flush()
	vAssert("C01.grp.one-record-per-query-name-in-input-order", string(w.buf) == exp)
}

func itoa(i int) string {
	if i == 0 {
		return "0"
	}
	s := ""
	for i > 0 {
		s = string(rune('0'+i%10)) + s
		i /= 10
	}
	return s
}
