package sam

import (
	"bytes"
	biogosam "github.com/biogo/hts/sam"
)

// vPairInputs builds a symbolic reference and K records of one query.
func vPairInputs(L, K, O, ML int, opset []int) ([]byte, []vRec, []biogosam.Record) {
	ref := make([]byte, L)
	for i := range ref {
		ref[i] = vNuc(vName("ref", i), "ACGT")
	}
	k := 1 + vChoice("nrec", K)
	var vs []vRec
	var recs []biogosam.Record
	for j := 0; j < k; j++ {
		v := vSamRecord("query", j, L, O, ML, opset)
		vs = append(vs, v)
		recs = append(recs, v.rec)
	}
	return ref, vs, recs
}

// vPairOps: the CIGAR operators of the pair units: M, I, D, S, or (ALLOPS=1) all nine.
func vPairOps() []int {
	if vParam("ALLOPS") == 1 {
		return vAllOps
	}
	return []int{vM, vI, vD, vS}
}

// vInsertions: per reference boundary p (0..L: before base p), the inserted bases, from the harness's own
// reading of the CIGARs. Two records may report the SAME insertion at one boundary (overlapping supplementary
// alignments do): it counts once. ok=false if two records insert different things at one boundary (conflicting
// records, outside the claim).
func vInsertions(vs []vRec, L int) ([][]byte, bool) {
	ins := make([][]byte, L+1)
	ok := true
	for _, v := range vs {
		// this record's own insertions per boundary (consecutive I operators concatenate)
		own := make([][]byte, L+1)
		q, r := 0, v.pos
		for k, t := range v.types {
			n := v.lens[k]
			switch t {
			case vM, vEq, vX:
				q += n
				r += n
			case vD, vN:
				r += n
			case vS:
				q += n
			case vI:
				own[r] = append(own[r], v.seq[q:q+n]...)
				q += n
			}
		}
		for p := 0; p <= L; p++ {
			if len(own[p]) == 0 {
				continue
			}
			if len(ins[p]) == 0 {
				ins[p] = own[p]
				continue
			}
			// another record already inserts here: the same insertion seen twice, or a conflict
			if len(ins[p]) != len(own[p]) {
				ok = false
				continue
			}
			for i := range own[p] {
				vAssume(ins[p][i] == own[p][i])
			}
		}
	}
	return ins, ok
}

// VH_C02_pair: the reference/query pair built from a block of records is a lossless pairwise alignment.
func VH_C02_pair() {
	L := vParam("L")
	K := vParam("K")
	O := vParam("O")
	ML := vParam("ML")
	ref, vs, recs := vPairInputs(L, K, O, ML, vPairOps())
	ins, unique := vInsertions(vs, L)
	vAssume(unique)

	cSR := make(chan samRecords, 1)
	cSR <- samRecords{records: recs, idx: 3}
	close(cSR)
	cPair := make(chan alignPair, 1)
	cErr := make(chan error, 8)
	refCopy := make([]byte, L)
	copy(refCopy, ref)
	blockToPairwiseAlignment(cSR, cPair, cErr, refCopy, false)
	vAssert("C02.one-pair", len(cPair) == 1 && len(cErr) == 0)
	if len(cPair) != 1 {
		return
	}
	pair := <-cPair
	vAssert("C02.meta", pair.queryname == "query" && pair.idx == 3)
	R, Q := pair.ref, pair.query
	vAssert("C02.rows-equal-length", len(R) == len(Q))
	if len(R) != len(Q) {
		return
	}
	// the --pad toMultiAlign row of the same records, from the real code path
	padrow, err := getSeqFromBlock(recs, L, false)
	vAssert("C02.toma-ok", err == nil && len(padrow) == L)
	padrow = swapInNs(padrow)

	// expected layout from the reference model: before base p come the bases inserted at boundary p
	total := L
	for p := 0; p <= L; p++ {
		total += len(ins[p])
	}
	vAssert("C02.length-is-reference-plus-insertions", len(R) == total)
	if len(R) != total {
		return
	}
	col := 0
	for p := 0; p <= L; p++ {
		for _, b := range ins[p] {
			vAssert("C02.reference-gap-exactly-at-insertion-columns", R[col] == '-')
			vAssert("C02.inserted-bases-in-order", Q[col] == b)
			col++
		}
		if p < L {
			vAssert("C02.degapped-reference-is-the-reference", R[col] == ref[p])
			vAssert("C02.query-without-insertion-columns-is-toMultiAlign-pad-row", Q[col] == padrow[p])
			col++
		}
	}
	// the input reference is not modified
	for i := 0; i < L; i++ {
		vAssert("C02.input-reference-unchanged", refCopy[i] == ref[i])
	}
}

// VH_C02_skip_insertions: with --skip-insertions the pair is the reference and the toMultiAlign --pad row.
func VH_C02_skip_insertions() {
	L := vParam("L")
	K := vParam("K")
	O := vParam("O")
	ML := vParam("ML")
	ref, _, recs := vPairInputs(L, K, O, ML, vPairOps())
	cSR := make(chan samRecords, 1)
	cSR <- samRecords{records: recs, idx: 0}
	close(cSR)
	cPair := make(chan alignPair, 1)
	cErr := make(chan error, 8)
	blockToPairwiseAlignment(cSR, cPair, cErr, ref, true)
	vAssert("C02.skip.one-pair", len(cPair) == 1 && len(cErr) == 0)
	if len(cPair) != 1 {
		return
	}
	pair := <-cPair
	padrow, err := getSeqFromBlock(recs, L, false)
	vAssert("C02.skip.toma-ok", err == nil && len(padrow) == L)
	padrow = swapInNs(padrow)
	vAssert("C02.skip.lengths", len(pair.ref) == L && len(pair.query) == L)
	if len(pair.ref) != L || len(pair.query) != L {
		return
	}
	for i := 0; i < L; i++ {
		vAssert("C02.skip.reference-row", pair.ref[i] == ref[i])
		vAssert("C02.skip.query-row-is-toMultiAlign-pad-row", pair.query[i] == padrow[i])
	}
}

// VH_C15_topa_trim: --start/--end cut the pair from the column of reference base s to that of base e.
func VH_C15_topa_trim() {
	L := vParam("L")
	G := vParam("G")
	// an arbitrary gapped pair: reference bases with up to G gap columns in total, anywhere
	var R, Q []byte
	gaps := 0
	for p := 0; p <= L; p++ {
		g := vChoice(vName("gap", p), G+1)
		vAssume(gaps+g <= G)
		gaps += g
		for j := 0; j < g; j++ {
			R = append(R, '-')
			Q = append(Q, vNuc(vName("qi", p, j), "ACGT"))
		}
		if p < L {
			R = append(R, vNuc(vName("r", p), "ACGT"))
			Q = append(Q, vNuc(vName("q", p), "ACGTN-"))
		}
	}
	s := 1 + vChoice("s", L)
	e := 1 + vChoice("e", L)
	vAssume(s <= e)
	cIn := make(chan alignPair, 1)
	cIn <- alignPair{ref: R, query: Q, queryname: "q"}
	close(cIn)
	cOut := make(chan alignPair, 1)
	cErr := make(chan error, 1)
	trimAlignment(true, s, e, cIn, cOut, cErr)
	vAssert("C15.topa.one-pair", len(cOut) == 1 && len(cErr) == 0)
	if len(cOut) != 1 {
		return
	}
	out := <-cOut
	// columns of reference bases s and e
	cs, ce, n := -1, -1, 0
	for i := range R {
		if R[i] != '-' {
			n++
			if n == s {
				cs = i
			}
			if n == e {
				ce = i
			}
		}
	}
	vAssert("C15.topa.cut-length", len(out.ref) == ce-cs+1 && len(out.query) == ce-cs+1)
	if len(out.ref) != ce-cs+1 || len(out.query) != ce-cs+1 {
		return
	}
	for i := cs; i <= ce; i++ {
		vAssert("C15.topa.cut-is-from-column-of-base-s-to-column-of-base-e", out.ref[i-cs] == R[i] && out.query[i-cs] == Q[i])
	}
	// untrimmed: passes through
	cIn2 := make(chan alignPair, 1)
	cIn2 <- alignPair{ref: R, query: Q}
	close(cIn2)
	cOut2 := make(chan alignPair, 1)
	trimAlignment(false, 1, L, cIn2, cOut2, cErr)
	o2 := <-cOut2
	vAssert("C15.topa.untrimmed-unchanged", string(o2.ref) == string(R) && string(o2.query) == string(Q))
}

// VH_C15_sam_wrap: toPairAlign's wrap() only re-breaks the line.
func VH_C15_sam_wrap() {
	L := vParam("L")
	s := make([]byte, L)
	for i := range s {
		s[i] = vNuc(vName("s", i), "ACGTN-")
	}
	w := vChoice("wrap", L+2) // 0 = no wrapping
	got := wrap(string(s), w)
	exp := ""
	if w <= 0 {
		exp = string(s) + "\n"
	} else {
		for i := 0; i < L; i += w {
			j := i + w
			if j > L {
				j = L
			}
			exp += string(s[i:j]) + "\n"
		}
	}
	vAssert("C15.samwrap.rebreak-only", got == exp)
}

// VH_C02_two_insertions: a record with up to two insertions (M I M I M, every length symbolic, segments
// optional) together with a second record covering an arbitrary stretch: every row has to be re-gapped at
// several insertion sites that belong to the other row.
func VH_C02_two_insertions() {
	L := vParam("L")
	ref := make([]byte, L)
	for i := range ref {
		ref[i] = vNuc(vName("ref", i), "ACGT")
	}
	// record A
	var a vRec
	a.pos = vChoice("posA", L)
	shape := []int{vM, vI, vM, vI, vM}
	qlen, rlen := 0, 0
	var cigA biogosam.Cigar
	for k, t := range shape {
		var n int
		if t == vI {
			n = 1 + vChoice(vName("lenA", k), 2)
		} else {
			n = vChoice(vName("lenA", k), 3) // 0 = segment absent
		}
		if n == 0 {
			continue
		}
		a.types = append(a.types, t)
		a.lens = append(a.lens, n)
		qlen += n
		if t == vM {
			rlen += n
		}
		cigA = append(cigA, biogosam.NewCigarOp(biogosam.CigarOpType(t), n))
	}
	vAssume(a.pos+rlen <= L)
	a.seq = make([]byte, qlen)
	for i := range a.seq {
		a.seq[i] = vNuc(vName("seqA", i), vSeqAlphabet)
	}
	a.rec = biogosam.Record{Name: "query", Pos: a.pos, Cigar: cigA, Seq: biogosam.NewSeq(a.seq)}
	// record B: one match block anywhere
	var b vRec
	b.pos = vChoice("posB", L)
	nb := 1 + vChoice("lenB", L)
	vAssume(b.pos+nb <= L)
	b.types, b.lens = []int{vM}, []int{nb}
	b.seq = make([]byte, nb)
	for i := range b.seq {
		b.seq[i] = vNuc(vName("seqB", i), vSeqAlphabet)
	}
	b.rec = biogosam.Record{Name: "query", Pos: b.pos, Cigar: biogosam.Cigar{biogosam.NewCigarOp(biogosam.CigarMatch, nb)}, Seq: biogosam.NewSeq(b.seq)}
	vs := []vRec{a, b}
	recs := []biogosam.Record{a.rec, b.rec}
	if vBool("BFirst") {
		vs = []vRec{b, a}
		recs = []biogosam.Record{b.rec, a.rec}
	}
	ins, unique := vInsertions(vs, L)
	vAssume(unique)
	cSR := make(chan samRecords, 1)
	cSR <- samRecords{records: recs, idx: 0}
	close(cSR)
	cPair := make(chan alignPair, 1)
	cErr := make(chan error, 8)
	refCopy := append([]byte{}, ref...)
	blockToPairwiseAlignment(cSR, cPair, cErr, refCopy, false)
	vAssert("C02.2ins.one-pair", len(cPair) == 1 && len(cErr) == 0)
	if len(cPair) != 1 {
		return
	}
	pair := <-cPair
	R, Q := pair.ref, pair.query
	padrow, err := getSeqFromBlock(recs, L, false)
	vAssert("C02.2ins.toma-ok", err == nil && len(padrow) == L)
	padrow = swapInNs(padrow)
	total := L
	for p := 0; p <= L; p++ {
		total += len(ins[p])
	}
	vAssert("C02.2ins.length-is-reference-plus-insertions", len(R) == total && len(Q) == total)
	if len(R) != total || len(Q) != total {
		return
	}
	col := 0
	for p := 0; p <= L; p++ {
		for _, bb := range ins[p] {
			vAssert("C02.2ins.reference-gap-exactly-at-insertion-columns", R[col] == '-')
			vAssert("C02.2ins.inserted-bases-in-order", Q[col] == bb)
			col++
		}
		if p < L {
			vAssert("C02.2ins.degapped-reference-is-the-reference", R[col] == ref[p])
			vAssert("C02.2ins.query-without-insertion-columns-is-toMultiAlign-pad-row", Q[col] == padrow[p])
			col++
		}
	}
}

// VH_C02_three_records: a query with THREE records: one with an insertion (M I M), one plain match block, one
// with a deletion (M D M); symbolic positions and lengths; any of the two file orders of the first two.
func VH_C02_three_records() {
	L := vParam("L")
	ref := make([]byte, L)
	for i := range ref {
		ref[i] = vNuc(vName("ref", i), "ACGT")
	}
	mk := func(name string, r int, shape []int) vRec {
		var v vRec
		v.pos = vChoice(vName("pos", r), L)
		qlen, rlen := 0, 0
		var cig biogosam.Cigar
		for k, t := range shape {
			n := 1 + vChoice(vName("len", r, k), 2)
			if t == vM && k > 0 && k == len(shape)-1 {
				n = vChoice(vName("len", r, k), 3) // trailing block may be absent
				if n == 0 {
					continue
				}
			}
			v.types = append(v.types, t)
			v.lens = append(v.lens, n)
			switch t {
			case vM:
				qlen += n
				rlen += n
			case vI:
				qlen += n
			case vD:
				rlen += n
			}
			cig = append(cig, biogosam.NewCigarOp(biogosam.CigarOpType(t), n))
		}
		vAssume(v.pos+rlen <= L)
		v.seq = make([]byte, qlen)
		for i := range v.seq {
			v.seq[i] = vNuc(vName("seq", r, i), vSeqAlphabet)
		}
		v.rec = biogosam.Record{Name: name, Pos: v.pos, Cigar: cig, Seq: biogosam.NewSeq(v.seq)}
		return v
	}
	a := mk("query", 0, []int{vM, vI, vM})
	b := mk("query", 1, []int{vM})
	c := mk("query", 2, []int{vM, vD, vM})
	vs := []vRec{a, b, c}
	if vBool("swapFirstTwo") {
		vs = []vRec{b, a, c}
	}
	recs := []biogosam.Record{vs[0].rec, vs[1].rec, vs[2].rec}
	ins, unique := vInsertions(vs, L)
	vAssume(unique)
	cSR := make(chan samRecords, 1)
	cSR <- samRecords{records: recs, idx: 0}
	close(cSR)
	cPair := make(chan alignPair, 1)
	cErr := make(chan error, 8)
	blockToPairwiseAlignment(cSR, cPair, cErr, append([]byte{}, ref...), false)
	vAssert("C02.3rec.one-pair", len(cPair) == 1 && len(cErr) == 0)
	if len(cPair) != 1 {
		return
	}
	pair := <-cPair
	R, Q := pair.ref, pair.query
	padrow, err := getSeqFromBlock(recs, L, false)
	vAssert("C02.3rec.toma-ok", err == nil && len(padrow) == L)
	padrow = swapInNs(padrow)
	total := L
	for p := 0; p <= L; p++ {
		total += len(ins[p])
	}
	vAssert("C02.3rec.length-is-reference-plus-insertions", len(R) == total && len(Q) == total)
	if len(R) != total || len(Q) != total {
		return
	}
	col := 0
	for p := 0; p <= L; p++ {
		for _, bb := range ins[p] {
			vAssert("C02.3rec.reference-gap-exactly-at-insertion-columns", R[col] == '-' && Q[col] == bb)
			col++
		}
		if p < L {
			vAssert("C02.3rec.rows-are-reference-and-toMultiAlign-pad-row", R[col] == ref[p] && Q[col] == padrow[p])
			col++
		}
	}
}

// VH_C02_files: toPairAlign into a directory: one file per query, named after the query ('/' replaced),
// holding the reference and query rows (or the query row only with --omit-reference), wrapped as asked.
func VH_C02_files() {
	samTxt := "@HD\tVN:1.6\n@SQ\tSN:ref\tLN:8\n" +
		"q/a/1\t0\tref\t2\t60\t3M1I2M\t*\t0\t0\tAC" + string([]byte{vNuc("x", "ACGT")}) + "TAC\t*\n" +
		"q2\t0\tref\t1\t60\t2M2D4M\t*\t0\t0\tGCATTA\t*\n"
	refTxt := ">ref\nACGTACGT\n"
	omit := vBool("omitReference")
	wrapw := []int{0, 4}[vChoice("wrap", 2)]
	dir := vDir() + "/pairs"
	err := ToPairAlign(bytes.NewReader([]byte(samTxt)), bytes.NewReader([]byte(refTxt)), dir, wrapw, -1, -1, omit, false, 2)
	vAssert("C02.files.run-ok", err == nil)
	// the same pairs through the stdout writer
	vStdoutCapture()
	err2 := ToPairAlign(bytes.NewReader([]byte(samTxt)), bytes.NewReader([]byte(refTxt)), "stdout", wrapw, -1, -1, omit, false, 1)
	all := vStdout()
	vAssert("C02.files.stdout-run-ok", err2 == nil && len(all) > 0)
	f1 := vReadFile(dir + "/q_a_1.fasta")
	f2 := vReadFile(dir + "/q2.fasta")
	vAssert("C02.files.one-file-per-query-named-after-it", len(f1) > 0 && len(f2) > 0)
	vAssert("C02.files.files-hold-the-pairs-in-stdout-form", f1+f2 == all)
}

// VH_C02_history: two queries handled one after the other by the same toPairAlign worker (as with -t 1, or
// whenever a worker takes two groups): each pair must be the pair that query gives when it is processed alone
// by a fresh worker -- nothing may be carried from one query to the next. Both insertion modes.
func VH_C02_history() {
	L := vParam("L")
	O := vParam("O")
	ML := vParam("ML")
	ref := make([]byte, L)
	for i := range ref {
		ref[i] = vNuc(vName("ref", i), "ACGT")
	}
	omitIns := vBool("skipInsertions")
	v1 := vSamRecord("q1", 0, L, O, ML, []int{vM, vI, vD})
	v2 := vSamRecord("q2", 1, L, O, ML, []int{vM, vI, vD})
	run := func(groups []samRecords) []alignPair {
		cSR := make(chan samRecords, len(groups))
		for _, g := range groups {
			cSR <- g
		}
		close(cSR)
		cPair := make(chan alignPair, len(groups))
		cErr := make(chan error, 8)
		blockToPairwiseAlignment(cSR, cPair, cErr, append([]byte{}, ref...), omitIns)
		vAssert("C02.history.pairs-built", len(cPair) == len(groups) && len(cErr) == 0)
		var out []alignPair
		for len(cPair) > 0 {
			p := <-cPair
			out = append(out, alignPair{ref: append([]byte{}, p.ref...), query: append([]byte{}, p.query...), queryname: p.queryname, idx: p.idx})
		}
		return out
	}
	g1 := samRecords{records: []biogosam.Record{v1.rec}, idx: 0}
	g2 := samRecords{records: []biogosam.Record{v2.rec}, idx: 1}
	a1 := run([]samRecords{g1})
	a2 := run([]samRecords{g2})
	both := run([]samRecords{g1, g2})
	if len(a1) != 1 || len(a2) != 1 || len(both) != 2 {
		return
	}
	vAssert("C02.history.first-query-as-alone", string(both[0].ref) == string(a1[0].ref) && string(both[0].query) == string(a1[0].query) && both[0].queryname == "q1")
	vAssert("C02.history.second-query-independent-of-first", string(both[1].ref) == string(a2[0].ref) && string(both[1].query) == string(a2[0].query) && both[1].queryname == "q2")
}
