package sam

import (
	"bytes"
	"errors"
)

type vFailWriter struct {
	failAt int
	n      int
}

func (w *vFailWriter) Write(p []byte) (int, error) {
	w.n++
	if w.n == w.failAt {
		return 0, errors.New("write failed")
	}
	return len(p), nil
}

const vSamText = "@HD\tVN:1.6\n@SQ\tSN:ref\tLN:6\n" +
	"q1\t0\tref\t2\t60\t2M1I2M\t*\t0\t0\tACGTA\t*\n" +
	"q2\t0\tref\t1\t60\t1M2D2M\t*\t0\t0\tGCA\t*\n" +
	"q3\t0\tref\t1\t60\t6M\t*\t0\t0\tACGTAC\t*\n"

// VH_C19_sam: a failed write at any point makes sam toMultiAlign / sam variants return an error.
func VH_C19_sam() {
	mode := vChoice("mode", 3) // 0 toMultiAlign, 1 toMultiAlign --wrap 4, 2 sam variants
	run := func(w *vFailWriter) error {
		switch mode {
		case 0:
			return ToMultiAlign(bytes.NewReader([]byte(vSamText)), w, 0, -1, -1, false, 2)
		case 1:
			return ToMultiAlign(bytes.NewReader([]byte(vSamText)), w, 4, -1, -1, false, 2)
		}
		gb := "LOCUS       TEST 6 bp DNA\nFEATURES             Location/Qualifiers\n     CDS             1..6\n                     /gene=\"g\"\n                     /codon_start=1\n                     /translation=\"TY\"\nORIGIN\n        1 acgtac\n//\n"
		return Variants(bytes.NewReader([]byte(vSamText)), nil, false, bytes.NewReader([]byte(gb)), "gb", w, -1, -1, false, 0, false, 2)
	}
	w0 := &vFailWriter{}
	vAssert("C19.sam.no-failure-no-error", run(w0) == nil && w0.n > 0)
	k := 1 + vChoice("k", w0.n)
	vRaceDetect()
	vSchedExplore(vParam("DEV"))
	err := run(&vFailWriter{failAt: k})
	vAssert("C19.sam.failed-write-is-reported", err != nil)
}
