package sam

import (
	"bytes"

	biogosam "github.com/biogo/hts/sam"
)

const vSeqAlphabet = "ACGTNRYM"

// cigar operator codes in biogo order: M I D N S H P = X
const (
	vM = 0
	vI = 1
	vD = 2
	vN = 3
	vS = 4
	vH = 5
	vP = 6
	vEq = 7
	vX = 8
)

// vRec is a symbolic SAM record together with the harness's own reading of its CIGAR.
type vRec struct {
	rec   biogosam.Record
	pos   int
	types []int
	lens  []int
	seq   []byte
}

// vSamRecord builds a record with an arbitrary POS in [0,L), 1..O operators of arbitrary type and
// length 1..maxLen, and an arbitrary SEQ of the query-consuming length. The alignment is assumed to
// fit in the reference (POS + reference-consuming length <= L).
func vSamRecord(name string, r int, L, O, maxLen int, opset []int) vRec {
	pos := vChoice(vName("pos", r), L)
	nops := 1 + vChoice(vName("nops", r), O)
	var v vRec
	v.pos = pos
	qlen, rlen := 0, 0
	var cigar biogosam.Cigar
	for k := 0; k < nops; k++ {
		t := opset[vChoice(vName("op", r, k), len(opset))]
		n := 1 + vChoice(vName("len", r, k), maxLen)
		v.types = append(v.types, t)
		v.lens = append(v.lens, n)
		switch t {
		case vM, vEq, vX:
			qlen += n
			rlen += n
		case vI, vS:
			qlen += n
		case vD, vN:
			rlen += n
		}
		cigar = append(cigar, biogosam.NewCigarOp(biogosam.CigarOpType(t), n))
	}
	vAssume(pos+rlen <= L)
	v.seq = make([]byte, qlen)
	for i := range v.seq {
		v.seq[i] = vNuc(vName("seq", r, i), vSeqAlphabet)
	}
	v.rec = biogosam.Record{Name: name, Pos: pos, Cigar: cigar, Seq: biogosam.NewSeq(v.seq)}
	return v
}

// vProject is the reference model: walk the CIGAR once and say, per reference position, what the
// record puts there: a query base, '-' (deleted), or '*' (not covered / skipped).
func vProject(v vRec, L int) []byte {
	row := make([]byte, L)
	for i := range row {
		row[i] = '*'
	}
	q, r := 0, v.pos
	for k, t := range v.types {
		n := v.lens[k]
		switch t {
		case vM, vEq, vX:
			for j := 0; j < n; j++ {
				row[r] = v.seq[q]
				r++
				q++
			}
		case vD:
			for j := 0; j < n; j++ {
				row[r] = '-'
				r++
			}
		case vN:
			r += n
		case vI, vS:
			q += n
		}
	}
	return row
}

type vCapture struct {
	buf    []byte
	writes int
}

func (c *vCapture) Write(p []byte) (int, error) {
	c.buf = append(c.buf, p...)
	c.writes++
	return len(p), nil
}

var vAllOps = []int{vM, vI, vD, vN, vS, vH, vP, vEq, vX}

func vReader(s string) *bytes.Reader { return bytes.NewReader([]byte(s)) }
