package sam

import (
	"github.com/virus-evolution/gofasta/pkg/variants"

	biogosam "github.com/biogo/hts/sam"
)

// VH_C01_wide: long operators and many operators: a record M I M D M (+ optional S / H clips) whose lengths
// come from {1,11} on a 40-base reference, projected onto reference coordinates; and the pair built from
// it (C02) with its indels (C05) read back in reference coordinates.
func VH_C01_wide() {
	L := 40
	lens := []int{1, 11}
	ref := make([]byte, L)
	for i := range ref {
		ref[i] = "ACGT"[i%4]
	}
	var v vRec
	v.pos = vChoice("pos", 6)
	shape := []int{vS, vM, vI, vM, vD, vM, vH}
	qlen, rlen := 0, 0
	var cigar biogosam.Cigar
	for k, t := range shape {
		n := lens[vChoice(vName("len", k), len(lens))]
		if (t == vS || t == vH) && !vBool(vName("clip", k)) {
			continue
		}
		v.types = append(v.types, t)
		v.lens = append(v.lens, n)
		switch t {
		case vM:
			qlen += n
			rlen += n
		case vI, vS:
			qlen += n
		case vD:
			rlen += n
		}
		cigar = append(cigar, biogosam.NewCigarOp(biogosam.CigarOpType(t), n))
	}
	vAssume(v.pos+rlen <= L)
	v.seq = make([]byte, qlen)
	for i := range v.seq {
		v.seq[i] = "TGCA"[i%4]
	}
	// a few symbolic bases, spread out
	for _, i := range []int{0, qlen / 2, qlen - 1} {
		v.seq[i] = vNuc(vName("seq", i), vSeqAlphabet)
	}
	v.rec = biogosam.Record{Name: "query", Pos: v.pos, Cigar: cigar, Seq: biogosam.NewSeq(v.seq)}
	recs := []biogosam.Record{v.rec}
	row, err := getSeqFromBlock(recs, L, false)
	vAssert("C01.wide.no-error", err == nil && len(row) == L)
	if len(row) != L {
		return
	}
	want := vProject(v, L)
	for i := 0; i < L; i++ {
		vAssert("C01.wide.column-is-the-aligned-base-or-gap", row[i] == want[i])
	}
	// the pair
	ins, _ := vInsertions([]vRec{v}, L)
	cSR := make(chan samRecords, 1)
	cSR <- samRecords{records: recs, idx: 0}
	close(cSR)
	cPair := make(chan alignPair, 1)
	cErr := make(chan error, 8)
	blockToPairwiseAlignment(cSR, cPair, cErr, append([]byte{}, ref...), false)
	vAssert("C02.wide.one-pair", len(cPair) == 1 && len(cErr) == 0)
	if len(cPair) != 1 {
		return
	}
	pair := <-cPair
	padrow := swapInNs(append([]byte{}, row...))
	total := L
	for p := 0; p <= L; p++ {
		total += len(ins[p])
	}
	vAssert("C02.wide.length-is-reference-plus-insertions", len(pair.ref) == total && len(pair.query) == total)
	if len(pair.ref) != total || len(pair.query) != total {
		return
	}
	col := 0
	for p := 0; p <= L; p++ {
		for _, b := range ins[p] {
			vAssert("C02.wide.reference-gap-exactly-at-insertion-columns", pair.ref[col] == '-' && pair.query[col] == b)
			col++
		}
		if p < L {
			vAssert("C02.wide.rows-are-reference-and-pad-row", pair.ref[col] == ref[p] && pair.query[col] == padrow[p])
			col++
		}
	}
	// indels from the pair, in reference coordinates (C05 / C11)
	keep := alignPair{ref: append([]byte{}, pair.ref...), query: append([]byte{}, pair.query...), queryname: "query"}
	cP2 := make(chan alignPair, 1)
	cP2 <- keep
	close(cP2)
	cV := make(chan variants.AnnoStructs, 1)
	getVariantsSam(nil, nil, cP2, cV, cErr)
	vAssert("C05.wide.variants-produced", len(cV) == 1)
	if len(cV) != 1 {
		return
	}
	A := <-cV
	exp := ""
	r := v.pos
	for k, t := range v.types {
		n := v.lens[k]
		switch t {
		case vM:
			r += n
		case vD:
			if r+1 != 1 && r+n != L {
				if exp != "" {
					exp += "|"
				}
				exp += "del:" + itoa(r+1) + ":" + itoa(n)
			}
			r += n
		case vI:
			if exp != "" {
				exp += "|"
			}
			exp += "ins:" + itoa(r) + ":" + itoa(n)
		}
	}
	vAssert("C05.wide.indels-from-cigar-in-reference-coordinates", vFormatAll(A.Vs, false) == exp)
}
