package sam

import (
	"bytes"
	"strconv"

	"github.com/virus-evolution/gofasta/pkg/alphabet"
)

// vAnnoPair renders one feature layout over a 9-base reference as a GenBank flat file and as the equivalent GFF3
// file (both carry the reference). Layouts: 0 forward CDS after an intergenic stretch; 1 reverse strand;
// 2 forward join; 3 codon_start 2 / phase 1; 4 reverse-strand join.
func vAnnoPair(k int, ref []byte) (gb, gff string) {
	type seg struct{ a, b int }
	var segs []seg
	strand := "+"
	loc := ""
	cstart := 1
	switch k {
	case 0:
		segs, loc = []seg{{4, 9}}, "4..9"
	case 1:
		segs, loc, strand = []seg{{1, 9}}, "complement(1..9)", "-"
	case 2:
		segs, loc = []seg{{1, 3}, {7, 9}}, "join(1..3,7..9)"
	case 3:
		segs, loc, cstart = []seg{{1, 7}}, "1..7", 2
	default:
		segs, loc, strand = []seg{{1, 3}, {7, 9}}, "complement(join(1..3,7..9))", "-"
	}
	// coding sequence in reading direction
	var cds []byte
	for _, s := range segs {
		cds = append(cds, ref[s.a-1:s.b]...)
	}
	if strand == "-" {
		rc := make([]byte, len(cds))
		for i := range cds {
			rc[len(cds)-1-i] = alphabet.Complement(string(cds[i : i+1]))[0]
		}
		cds = rc
	}
	cds = cds[cstart-1:]
	cds = cds[:len(cds)/3*3]
	tr, err := alphabet.Translate(string(cds), false)
	vAssert("layout.reference-translates", err == nil)
	gb = "LOCUS       TEST 9 bp DNA\nFEATURES             Location/Qualifiers\n     source          1..9\n                     /organism=\"x\"\n" +
		"     CDS             " + loc + "\n                     /gene=\"gA\"\n                     /codon_start=" + strconv.Itoa(cstart) + "\n                     /translation=\"" + tr + "\"\n" +
		"ORIGIN\n        1 " + string(ref) + "\n//\n"
	gff = "##gff-version 3\n##sequence-region ref 1 9\n"
	for i, s := range segs {
		phase := 0
		first := i == 0
		if strand == "-" {
			first = i == len(segs)-1
		}
		if first {
			phase = cstart - 1
		}
		gff += "ref\tx\tCDS\t" + strconv.Itoa(s.a) + "\t" + strconv.Itoa(s.b) + "\t.\t" + strand + "\t" + strconv.Itoa(phase) + "\tID=a;Name=gA\n"
	}
	gff += "##FASTA\n>ref\n" + string(ref) + "\n"
	return gb, gff
}

// VH_C14_sam: `sam variants` gives the same mutations whether the features come from the GenBank file or from
// the equivalent GFF3 file (reference taken from the annotation), up to the order of records at one position.
func VH_C14_sam() {
	ref := []byte("ATGGCATTA")
	k := vChoice("layout", 5)
	gb, gff := vAnnoPair(k, ref)
	q := append([]byte{}, ref...)
	t := vChoice("triplet_start", 7)
	for i := t; i < t+3; i++ {
		q[i] = vNuc(vName("q", i-t), "ACGT")
	}
	cigar, seq := "9M", string(q)
	switch vChoice("shape", 3) {
	case 1: // an insertion after base 5
		cigar, seq = "5M1I4M", string(q[:5])+"G"+string(q[5:])
	case 2: // a deletion of base 6
		cigar, seq = "5M1D3M", string(q[:5])+string(q[6:])
	}
	samTxt := "@HD\tVN:1.6\n@SQ\tSN:ref\tLN:9\nq1\t0\tref\t1\t60\t" + cigar + "\t*\t0\t0\t" + seq + "\t*\n"
	appendSNP := vBool("appendSNP")
	run := func(anno, suffix string) (string, error) {
		w := &vCapture{}
		err := Variants(bytes.NewReader([]byte(samTxt)), nil, false, bytes.NewReader([]byte(anno)), suffix, w, -1, -1, false, 0, appendSNP, 2)
		return string(w.buf), err
	}
	g, e1 := run(gb, "gb")
	vAssert("C14.sam.genbank-run-ok", e1 == nil)
	f, e2 := run(gff, "gff")
	vAssert("C14.sam.gff-run-ok", e2 == nil)
	if e1 != nil || e2 != nil {
		return
	}
	if g == f {
		vAssert("C14.sam.same-mutations", true)
		return
	}
	vAssert("C14.sam.same-mutations-up-to-order-at-one-position", vSameRecordSets(g, f))
}

// vSameRecordSets: both outputs have one data row listing the same multiset of '|'-separated records.
func vSameRecordSets(a, b string) bool {
	ra, rb := vRowRecords(a), vRowRecords(b)
	if len(ra) != len(rb) {
		return false
	}
	used := make([]bool, len(rb))
	for _, x := range ra {
		found := false
		for j, y := range rb {
			if !used[j] && x == y {
				used[j], found = true, true
				break
			}
		}
		if !found {
			return false
		}
	}
	return true
}

func vRowRecords(s string) []string {
	i := 0
	for i < len(s) && s[i] != '\n' {
		i++
	}
	i++
	for i < len(s) && s[i] != ',' {
		i++
	}
	i++
	var out []string
	start := i
	for ; i < len(s); i++ {
		if s[i] == '|' || s[i] == '\n' {
			out = append(out, s[start:i])
			start = i + 1
		}
	}
	return out
}
