package cmd

import (
	"bytes"
	"strconv"

	"github.com/virus-evolution/gofasta/pkg/closest"
	"github.com/virus-evolution/gofasta/pkg/sam"
	"github.com/virus-evolution/gofasta/pkg/snps"
	"github.com/virus-evolution/gofasta/pkg/updown"
	"github.com/virus-evolution/gofasta/pkg/variants"
)

type vCapture struct {
	buf    []byte
	writes int
}

func (c *vCapture) Write(p []byte) (int, error) {
	c.buf = append(c.buf, p...)
	c.writes++
	return len(p), nil
}

func vCLI(args ...string) error {
	rootCmd.SetArgs(args)
	rootCmd.SilenceUsage = true
	rootCmd.SilenceErrors = true
	return rootCmd.Execute()
}

func vBoolFlag(name string, v bool) string {
	if v {
		return "--" + name + "=true"
	}
	return "--" + name + "=false"
}

const vCliSam = "@HD\tVN:1.6\n@SQ\tSN:ref\tLN:8\n" +
	"q1\t0\tref\t2\t60\t3M1I2M\t*\t0\t0\tACGTAC\t*\n" +
	"q2\t0\tref\t1\t60\t2M2D4M\t*\t0\t0\tGCATTA\t*\n" +
	"q2\t2048\tref\t7\t60\t4S2M\t*\t0\t0\tGGGGCA\t*\n"

// VH_C15_cli_legacy: the deprecated --trim/--trimstart/--trimend flags of `sam toMultiAlign` equal
// --start/--end shifted to 1-based inclusive, through the real command line (cobra flag parsing, files).
func VH_C15_cli_legacy() {
	L := 8
	samf := vFile("in.sam", []byte(vCliSam))
	a := vChoice("trimstart", L) // 0-based, half open
	b := 1 + vChoice("trimend", L)
	vAssume(a < b)
	pad := vBool("pad")
	useTrimFlag := vBool("alsoPassTrim")
	// either bound may be given alone
	ts, te, ns, ne := strconv.Itoa(a), strconv.Itoa(b), strconv.Itoa(a+1), strconv.Itoa(b)
	switch vChoice("which", 3) {
	case 1:
		ts, ns = "-1", "-1"
		a = 0
	case 2:
		te, ne = "-1", "-1"
		b = -1
	}
	out1 := vFile("legacy.fa", nil)
	e1 := vCLI("sam", "toMultiAlign", "-s", samf, "-t", "1", "-o", out1, vBoolFlag("pad", pad), vBoolFlag("trim", useTrimFlag),
		"--trimstart", ts, "--trimend", te, "--start", "-1", "--end", "-1", "--wrap", "-1")
	vAssert("C15.cli.legacy-run-ok", e1 == nil)
	out2 := vFile("new.fa", nil)
	e2 := vCLI("sam", "toMultiAlign", "-s", samf, "-t", "1", "-o", out2, vBoolFlag("pad", pad), "--trim=false",
		"--trimstart", "-1", "--trimend", "-1", "--start", ns, "--end", ne, "--wrap", "-1")
	vAssert("C15.cli.new-run-ok", e2 == nil)
	vAssert("C15.cli.legacy-flags-equal-start-end-shifted", vReadFile(out1) == vReadFile(out2) && len(vReadFile(out2)) > 0)
	// and both equal the library call with the 1-based inclusive window
	w := &vCapture{}
	libStart, libEnd := a+1, b
	if ns == "-1" {
		libStart = -1
	}
	e3 := sam.ToMultiAlign(bytes.NewReader([]byte(vCliSam)), w, -1, libStart, libEnd, pad, 1)
	vAssert("C15.cli.equals-library-call", e3 == nil && string(w.buf) == vReadFile(out2))
	// combining the two flag sets is refused
	e4 := vCLI("sam", "toMultiAlign", "-s", samf, "-t", "1", "-o", out1, "--trimstart", "0", "--trimend", "4", "--start", "1", "--end", "4")
	vAssert("C15.cli.mixing-flag-sets-is-an-error", e4 != nil)
}

// VH_C15_cli_stdin: `variants` reading the alignment from stdin (reference first) equals reading the file.
func VH_C15_cli_stdin() {
	gb := "LOCUS       TEST 9 bp DNA\nFEATURES             Location/Qualifiers\n     CDS             1..9\n                     /gene=\"g\"\n                     /codon_start=1\n                     /translation=\"MA\"\nORIGIN\n        1 atggcataa\n//\n"
	msa := ">ref\nATGGCATAA\n>q1\nATG" + string([]byte{vNuc("x", "ACGTN-")}) + "CATAA\n>q2\nATGGC" + string([]byte{vNuc("y", "ACGTN-")}) + "TAA\n"
	anno := vFile("anno.gb", []byte(gb))
	msaf := vFile("msa.fa", []byte(msa))
	agg := vBool("aggregate")
	out1 := vFile("file.csv", nil)
	e1 := vCLI("variants", "--msa", msaf, "-r", "ref", "-a", anno, "-o", out1, vBoolFlag("aggregate", agg), "-t", "1", "--start", "-1", "--end", "-1")
	vAssert("C15.cli.file-run-ok", e1 == nil)
	vSetStdin([]byte(msa))
	out2 := vFile("stdin.csv", nil)
	e2 := vCLI("variants", "--msa", "stdin", "-r", "ref", "-a", anno, "-o", out2, vBoolFlag("aggregate", agg), "-t", "1", "--start", "-1", "--end", "-1")
	vAssert("C15.cli.stdin-run-ok", e2 == nil)
	vAssert("C15.cli.stdin-equals-file", vReadFile(out1) == vReadFile(out2) && len(vReadFile(out1)) > 0)
}

// VH_C06_cli: the closest command line (-n, -d, --table, -m) is wired to the library as documented.
func VH_C06_cli() {
	q := ">q0\nACGT\n>q1\nACGA\n"
	t := ">t0\nAC" + string([]byte{vNuc("x", "ACGTN")}) + "T\n>t1\nACGA\n>t2\nTCGN\n"
	qf := vFile("q.fa", []byte(q))
	tf := vFile("t.fa", []byte(t))
	measure := []string{"raw", "snp", "tn93", "SNP"}[vChoice("measure", 4)]
	n := vChoice("n", 4)
	dsel := vChoice("d", 3)
	table := vBool("table")
	args := []string{"closest", "--query", qf, "--target", tf, "-m", measure, "-n", strconv.Itoa(n), "-t", "1", vBoolFlag("table", table)}
	dist := -1.0
	switch dsel {
	case 0:
		args = append(args, "-d", "")
	case 1:
		args = append(args, "-d", "0")
		dist = 0
	case 2:
		args = append(args, "-d", "0.5")
		dist = 0.5
	}
	out := vFile("out.csv", nil)
	args = append(args, "-o", out)
	err := vCLI(args...)
	vAssert("C06.cli.run-ok", err == nil)
	m := measure
	if m == "SNP" {
		m = "snp"
	}
	w := &vCapture{}
	var e2 error
	if n > 0 || dist != -1.0 {
		e2 = closest.ClosestN(n, dist, bytes.NewReader([]byte(q)), bytes.NewReader([]byte(t)), m, w, table, 1)
	} else {
		e2 = closest.Closest(bytes.NewReader([]byte(q)), bytes.NewReader([]byte(t)), m, w, 1)
	}
	vAssert("C06.cli.equals-library-call-with-documented-option-mapping", e2 == nil && vReadFile(out) == string(w.buf))
}

// VH_C18_cli: invalid command lines / files are refused by Execute() with an error (exit status 1).
func VH_C18_cli() {
	ref := vFile("ref.fa", []byte(">ref\nACGT\n"))
	aln := vFile("aln.fa", []byte(">s0\nACGA\n>s1\nTCGT\n"))
	out := vFile("out.txt", nil)
	gb := vFile("anno.gb", []byte("LOCUS       TEST 4 bp DNA\nFEATURES             Location/Qualifiers\n     CDS             1..3\n                     /gene=\"g\"\n                     /codon_start=1\n                     /translation=\"T\"\nORIGIN\n        1 acgt\n//\n"))
	bad := vFile("anno.txt", []byte("whatever"))
	var err error
	kind := vChoice("case", 12)
	switch kind {
	case 0: // unrecognised annotation suffix
		err = vCLI("variants", "--msa", aln, "-a", bad, "-o", out, "-t", "1")
	case 9, 10, 11: // unrecognised annotation suffix, sam variants (with a reference file) and variants (.gff3)
		samf := vFile("in.sam", []byte(vCliSam))
		ref8 := vFile("ref8.fa", []byte(">ref\nACGTACGT\n"))
		g3 := vFile("anno.gff3", []byte("##gff-version 3\n##sequence-region ref 1 8\nref\tx\tCDS\t1\t6\t.\t+\t0\tID=a;Name=g\n##FASTA\n>ref\nACGTACGT\n"))
		switch kind {
		case 9:
			err = vCLI("sam", "variants", "-s", samf, "-r", ref8, "-a", g3, "-o", out, "-t", "1")
		case 10:
			err = vCLI("sam", "variants", "-s", samf, "-r", ref8, "-a", bad, "-o", out, "-t", "1")
		default:
			err = vCLI("variants", "--msa", aln, "-a", g3, "-o", out, "-t", "1")
		}
	case 1: // input file that does not exist
		err = vCLI("snps", "-r", ref, "-q", "/vfs/does-not-exist.fa", "-o", out)
	case 2: // unknown distance measure
		err = vCLI("closest", "--query", aln, "--target", aln, "-m", "hamming", "-o", out, "-t", "1", "-n", "0", "-d", "")
	case 3: // -d that is not a number
		err = vCLI("closest", "--query", aln, "--target", aln, "-m", "raw", "-d", "abc", "-o", out, "-t", "1", "-n", "0")
	case 4: // topranking without any size/dist option
		err = vCLI("updown", "topranking", "-q", aln, "-t", aln, "-r", ref, "-o", out)
	case 5: // reference with two records
		two := vFile("two.fa", []byte(">a\nACGT\n>b\nACGT\n"))
		err = vCLI("snps", "-r", two, "-q", aln, "-o", out)
	case 6: // window outside the reference
		samf := vFile("in.sam", []byte(vCliSam))
		err = vCLI("sam", "toMultiAlign", "-s", samf, "-o", out, "--start", "1", "--end", "9", "-t", "1", "--trimstart", "-1", "--trimend", "-1", "--trim=false")
	case 7: // alignment wider than the reference
		wide := vFile("wide.fa", []byte(">s0\nACGAA\n"))
		err = vCLI("snps", "-r", ref, "-q", wide, "-o", out)
	case 8: // variants: alignment width differs from annotation reference
		err = vCLI("variants", "--msa", aln, "-a", gb, "-o", out, "-t", "1", "--start", "-1", "--end", "-1")
		// aln is 4 wide like the annotation: make it invalid instead through an invalid symbol
		bad2 := vFile("bad.fa", []byte(">s0\nACXA\n"))
		err = vCLI("variants", "--msa", bad2, "-a", gb, "-o", out, "-t", "1", "--start", "-1", "--end", "-1")
	}
	vAssert("C18.cli.invalid-usage-refused-with-error", err != nil)
}

// VH_C03_cli: the snps command line (--hard-gaps, --aggregate, --threshold) is wired to the library.
func VH_C03_cli() {
	ref := ">ref\nAC-T\n"
	aln := ">s0\nACG" + string([]byte{vNuc("x", "ACGTN-acgtn")}) + "\n>s1\nTC-T\n"
	rf := vFile("ref.fa", []byte(ref))
	af := vFile("aln.fa", []byte(aln))
	hard := vBool("hardGaps")
	agg := vBool("aggregate")
	thr := []string{"0", "0.5", "1"}[vChoice("thr", 3)]
	out := vFile("out.csv", nil)
	err := vCLI("snps", "-r", rf, "-q", af, "-o", out, vBoolFlag("hard-gaps", hard), vBoolFlag("aggregate", agg), "--threshold", thr)
	vAssert("C03.cli.run-ok", err == nil)
	th, _ := strconv.ParseFloat(thr, 64)
	w := &vCapture{}
	e2 := snps.SNPs(bytes.NewReader([]byte(ref)), bytes.NewReader([]byte(aln)), hard, agg, th, w)
	vAssert("C03.cli.equals-library-call", e2 == nil && vReadFile(out) == string(w.buf))
}

// VH_C09_cli: updown list | topranking through the command line, CSV and FASTA inputs.
func VH_C09_cli() {
	ref := ">ref\nACGT\n"
	q := ">q0\nAC" + string([]byte{vNuc("x", "ACGTN")}) + "A\n>q1\nTCGT\n"
	t := ">t0\nACGT\n>t1\nACGA\n>t2\nTCNA\n"
	rf := vFile("ref.fa", []byte(ref))
	qf := vFile("q.fa", []byte(q))
	tf := vFile("t.fa", []byte(t))
	qcsv := vFile("q.csv", nil)
	tcsv := vFile("t.csv", nil)
	vAssert("C09.cli.list-q-ok", vCLI("updown", "list", "-r", rf, "-q", qf, "-o", qcsv) == nil)
	vAssert("C09.cli.list-t-ok", vCLI("updown", "list", "-r", rf, "-q", tf, "-o", tcsv) == nil)
	table := vBool("table")
	ignArg := ""
	var ignList []string
	if vBool("ignore") {
		ignArg = vFile("ignore.txt", []byte("t1\n"))
		ignList = []string{"t1"}
	}
	run := func(qin, tin string) string {
		out := vFile("top.csv", nil)
		err := vCLI("updown", "topranking", "-q", qin, "-t", tin, "-r", rf, "-o", out, "--dist-all", "5", vBoolFlag("table", table), "--ignore", ignArg)
		vAssert("C09.cli.topranking-ok", err == nil)
		return vReadFile(out)
	}
	ff := run(qf, tf)
	vAssert("C09.cli.csv-target-same", run(qf, tcsv) == ff)
	vAssert("C09.cli.csv-query-same", run(qcsv, tf) == ff)
	vAssert("C09.cli.csv-both-same", run(qcsv, tcsv) == ff && len(ff) > 0)
	w := &vCapture{}
	e := updown.TopRanking(bytes.NewReader([]byte(q)), bytes.NewReader([]byte(t)), bytes.NewReader([]byte(ref)), w, table, "fasta", "fasta", ignList, 0, 0, 0, 0, 0, 5, 0, 0, 0, 0.1, 10000, false, 0)
	vAssert("C09.cli.equals-library-call", e == nil && string(w.buf) == ff)
	_ = variants.Variants
}

// VH_C19_cli_devfull: every command run through the real command line with -o /dev/full (a destination that
// accepts no byte) ends with an error, i.e. exit status 1.
func VH_C19_cli_devfull() {
	ref := vFile("ref.fa", []byte(">ref\nACGT\n"))
	aln := vFile("aln.fa", []byte(">s0\nACGA\n>s1\nTCGT\n"))
	samf := vFile("in.sam", []byte(vCliSam))
	gb := vFile("anno.gb", []byte("LOCUS       TEST 4 bp DNA\nFEATURES             Location/Qualifiers\n     CDS             1..3\n                     /gene=\"g\"\n                     /codon_start=1\n                     /translation=\"T\"\nORIGIN\n        1 acgt\n//\n"))
	gb8 := vFile("anno8.gb", []byte("LOCUS       TEST 8 bp DNA\nFEATURES             Location/Qualifiers\n     CDS             1..6\n                     /gene=\"g\"\n                     /codon_start=1\n                     /translation=\"TY\"\nORIGIN\n        1 acgtacgt\n//\n"))
	var err error
	switch vChoice("command", 11) {
	case 0:
		err = vCLI("snps", "-r", ref, "-q", aln, "-o", "/dev/full", "--aggregate=false")
	case 1:
		err = vCLI("snps", "-r", ref, "-q", aln, "-o", "/dev/full", "--aggregate=true")
	case 2:
		err = vCLI("closest", "--query", aln, "--target", aln, "-m", "snp", "-n", "0", "-d", "", "-t", "1", "-o", "/dev/full")
	case 3:
		err = vCLI("closest", "--query", aln, "--target", aln, "-m", "raw", "-n", "2", "-d", "", "-t", "1", "--table=false", "-o", "/dev/full")
	case 4:
		err = vCLI("closest", "--query", aln, "--target", aln, "-m", "raw", "-n", "2", "-d", "", "-t", "1", "--table=true", "-o", "/dev/full")
	case 5:
		err = vCLI("updown", "list", "-r", ref, "-q", aln, "-o", "/dev/full")
	case 6:
		err = vCLI("updown", "topranking", "-q", aln, "-t", aln, "-r", ref, "--dist-all", "4", "--table=false", "-o", "/dev/full")
	case 7:
		err = vCLI("updown", "topranking", "-q", aln, "-t", aln, "-r", ref, "--dist-all", "4", "--table=true", "-o", "/dev/full")
	case 8:
		err = vCLI("variants", "--msa", aln, "-a", gb, "-o", "/dev/full", "-t", "1", "--start", "-1", "--end", "-1", "--aggregate=false")
	case 9:
		err = vCLI("sam", "toMultiAlign", "-s", samf, "-t", "1", "-o", "/dev/full", "--start", "-1", "--end", "-1", "--trimstart", "-1", "--trimend", "-1", "--trim=false", "--wrap", "-1")
	case 10:
		err = vCLI("sam", "variants", "-s", samf, "-t", "1", "-a", gb8, "-o", "/dev/full")
	}
	vAssert("C19.cli.full-device-is-reported", err != nil)
}

// VH_C08_cli: updown topranking options through the real command line equal the library call.
func VH_C08_cli() {
	ref := ">ref\nAAAA\n"
	q := ">q0\nCAAA\n"
	t := ">t0\nCAAA\n>t1\nAAAA\n>t2\nCCAA\n>t3\nACAA\n>t4\nCANA\n>t5\nAANA\n"
	rf := vFile("ref.fa", []byte(ref))
	qf := vFile("q.fasta", []byte(q))
	tf := vFile("t.fa", []byte(t))
	ign := vFile("ignore.txt", []byte("t3\n"))
	sizetotal := vChoice("sizetotal", 3) * 2 // 0,2,4
	sizeup := vChoice("sizeup", 2)
	sizesame := vChoice("sizesame", 2)
	distall := vChoice("distall", 3)
	distpush := vChoice("distpush", 2)
	nofill := vBool("nofill")
	table := vBool("table")
	useIgnore := vBool("ignore")
	vAssume(sizetotal+sizeup+sizesame+distall+distpush > 0)
	args := []string{"updown", "topranking", "-q", qf, "-t", tf, "-r", rf,
		"--size-total", strconv.Itoa(sizetotal), "--size-up", strconv.Itoa(sizeup), "--size-down", "0", "--size-side", "0", "--size-same", strconv.Itoa(sizesame),
		"--dist-all", strconv.Itoa(distall), "--dist-up", "0", "--dist-down", "0", "--dist-side", "0", "--dist-push", strconv.Itoa(distpush),
		"--threshold-pair", "0.5", "--threshold-target", "1", vBoolFlag("no-fill", nofill), vBoolFlag("table", table)}
	var ignore []string
	if useIgnore {
		args = append(args, "--ignore", ign)
		ignore = []string{"t3"}
	} else {
		args = append(args, "--ignore", "")
	}
	out := vFile("out.csv", nil)
	args = append(args, "-o", out)
	e1 := vCLI(args...)
	w := &vCapture{}
	e2 := updown.TopRanking(bytes.NewReader([]byte(q)), bytes.NewReader([]byte(t)), bytes.NewReader([]byte(ref)), w, table, "fasta", "fasta", ignore,
		sizetotal, sizeup, 0, 0, sizesame, distall, 0, 0, 0, 0.5, 1, nofill, distpush)
	vAssert("C08.cli.same-error-status-as-library", (e1 == nil) == (e2 == nil))
	if e1 == nil && e2 == nil {
		vAssert("C08.cli.equals-library-call", vReadFile(out) == string(w.buf))
	}
}

// VH_C02_cli: sam toPairAlign through the real command line (-o stdout) equals the library call, for
// --omit-reference / --skip-insertions / --start / --end / --wrap.
func VH_C02_cli() {
	refTxt := ">ref\nACGTACGT\n"
	samf := vFile("in.sam", []byte(vCliSam))
	rf := vFile("ref.fa", []byte(refTxt))
	omit := vBool("omitReference")
	skip := vBool("skipInsertions")
	wrap := []int{-1, 3, 8}[vChoice("wrap", 3)]
	start, end := -1, -1
	if vBool("window") {
		start = 1 + vChoice("start", 8)
		end = 1 + vChoice("end", 8)
		vAssume(start <= end)
	}
	vStdoutCapture()
	e1 := vCLI("sam", "toPairAlign", "-s", samf, "-r", rf, "-t", "1", "-o", "stdout", vBoolFlag("omit-reference", omit), vBoolFlag("skip-insertions", skip),
		"--start", strconv.Itoa(start), "--end", strconv.Itoa(end), "--wrap", strconv.Itoa(wrap))
	got := vStdout()
	vStdoutCapture()
	e2 := sam.ToPairAlign(bytes.NewReader([]byte(vCliSam)), bytes.NewReader([]byte(refTxt)), "stdout", wrap, start, end, omit, skip, 1)
	want := vStdout()
	vAssert("C02.cli.run-ok", e1 == nil && e2 == nil)
	vAssert("C02.cli.equals-library-call", got == want && len(got) > 0)
}

// VH_C11_cli: sam variants and variants through the real command line, GenBank or GFF annotation chosen by
// file suffix, reference from file or from the annotation: CLI == library.
func VH_C11_cli() {
	refTxt := ">ref\nACGTACGT\n"
	gb := "LOCUS       TEST 8 bp DNA\nFEATURES             Location/Qualifiers\n     CDS             1..6\n                     /gene=\"g\"\n                     /codon_start=1\n                     /translation=\"TY\"\nORIGIN\n        1 acgtacgt\n//\n"
	gffTxt := "##gff-version 3\n##sequence-region ref 1 8\nref\tx\tCDS\t1\t6\t.\t+\t0\tID=a;Name=g\n##FASTA\n>ref\nACGTACGT\n"
	samf := vFile("in.sam", []byte(vCliSam))
	rf := vFile("ref.fa", []byte(refTxt))
	useGff := vBool("gff")
	annoName, annoTxt, suffix := "anno.gb", gb, "gb"
	if useGff {
		annoName, annoTxt, suffix = "anno.gff", gffTxt, "gff"
	}
	af := vFile(annoName, []byte(annoTxt))
	refFromFile := vBool("refFromFile")
	agg := vBool("aggregate")
	app := vBool("appendSNPs")
	start, end := -1, -1
	if vBool("window") {
		start, end = 2, 6
	}
	thrS := []string{"0", "0.5", "1"}[vChoice("threshold", 3)]
	thr, _ := strconv.ParseFloat(thrS, 64)
	out := vFile("out.csv", nil)
	args := []string{"sam", "variants", "-s", samf, "-t", "1", "-a", af, "-o", out, vBoolFlag("aggregate", agg), vBoolFlag("append-snps", app),
		"--start", strconv.Itoa(start), "--end", strconv.Itoa(end), "--threshold", thrS, "--genbank", ""}
	if refFromFile {
		args = append(args, "-r", rf)
	} else {
		args = append(args, "-r", "")
	}
	e1 := vCLI(args...)
	w := &vCapture{}
	e2 := sam.Variants(bytes.NewReader([]byte(vCliSam)), bytes.NewReader([]byte(refTxt)), refFromFile, bytes.NewReader([]byte(annoTxt)), suffix, w, start, end, agg, thr, app, 1)
	vAssert("C11.cli.run-ok", e1 == nil && e2 == nil)
	vAssert("C11.cli.sam-variants-equals-library-call", vReadFile(out) == string(w.buf) && len(w.buf) > 0)
	// variants on the same data in FASTA form
	msa := ">ref\nACGTACGT\n>q2\nGC--ATCA\n>q3\nACGTACGA\n"
	mf := vFile("msa.fa", []byte(msa))
	out2 := vFile("out2.csv", nil)
	e3 := vCLI("variants", "--msa", mf, "-r", "ref", "-a", af, "-o", out2, vBoolFlag("aggregate", agg), vBoolFlag("append-snps", app),
		"--start", strconv.Itoa(start), "--end", strconv.Itoa(end), "--threshold", thrS, "-t", "1", "--genbank", "")
	w2 := &vCapture{}
	e4 := variants.Variants(bytes.NewReader([]byte(msa)), false, "ref", bytes.NewReader([]byte(annoTxt)), suffix, w2, start, end, agg, thr, app, 1)
	vAssert("C11.cli.variants-run-ok", e3 == nil && e4 == nil)
	vAssert("C11.cli.variants-equals-library-call", vReadFile(out2) == string(w2.buf) && len(w2.buf) > 0)
}

// VH_C19_cli_limit: every command writing to a regular file that accepts only the first n bytes (n symbolic:
// any failure point from the header to the last row; natively RLIMIT_FSIZE) exits with an error; and with room
// for everything it succeeds. sam toPairAlign is driven with its stdout form (os.Stdout standing for a regular
// file) and with its directory form.
func VH_C19_cli_limit() {
	ref := vFile("ref.fa", []byte(">ref\nACGT\n"))
	aln := vFile("aln.fa", []byte(">s0\nACGA\n>s1\nTCGT\n"))
	samf := vFile("in.sam", []byte(vCliSam))
	ref8 := vFile("ref8.fa", []byte(">ref\nACGTACGT\n"))
	gb := vFile("anno.gb", []byte("LOCUS       TEST 4 bp DNA\nFEATURES             Location/Qualifiers\n     CDS             1..3\n                     /gene=\"g\"\n                     /codon_start=1\n                     /translation=\"T\"\nORIGIN\n        1 acgt\n//\n"))
	gb8 := vFile("anno8.gb", []byte("LOCUS       TEST 8 bp DNA\nFEATURES             Location/Qualifiers\n     CDS             1..6\n                     /gene=\"g\"\n                     /codon_start=1\n                     /translation=\"TY\"\nORIGIN\n        1 acgtacgt\n//\n"))
	out := vFile("out.txt", nil)
	command := vChoice("command", 14)
	toStdout := false
	dir := ""
	var args []string
	switch command {
	case 0:
		args = []string{"snps", "-r", ref, "-q", aln, "-o", out, "--aggregate=false"}
	case 1:
		args = []string{"snps", "-r", ref, "-q", aln, "-o", out, "--aggregate=true"}
	case 2:
		args = []string{"closest", "--query", aln, "--target", aln, "-m", "snp", "-n", "0", "-d", "", "-t", "1", "-o", out}
	case 3:
		args = []string{"closest", "--query", aln, "--target", aln, "-m", "raw", "-n", "2", "-d", "", "-t", "1", "--table=false", "-o", out}
	case 4:
		args = []string{"closest", "--query", aln, "--target", aln, "-m", "raw", "-n", "2", "-d", "", "-t", "1", "--table=true", "-o", out}
	case 5:
		args = []string{"updown", "list", "-r", ref, "-q", aln, "-o", out}
	case 6:
		args = []string{"updown", "topranking", "-q", aln, "-t", aln, "-r", ref, "--dist-all", "4", "--table=false", "-o", out}
	case 7:
		args = []string{"updown", "topranking", "-q", aln, "-t", aln, "-r", ref, "--dist-all", "4", "--table=true", "-o", out}
	case 8:
		args = []string{"variants", "--msa", aln, "-a", gb, "-o", out, "-t", "1", "--start", "-1", "--end", "-1", "--aggregate=false"}
	case 9:
		args = []string{"variants", "--msa", aln, "-a", gb, "-o", out, "-t", "1", "--start", "-1", "--end", "-1", "--aggregate=true"}
	case 10:
		args = []string{"sam", "toMultiAlign", "-s", samf, "-t", "1", "-o", out, "--start", "-1", "--end", "-1", "--trimstart", "-1", "--trimend", "-1", "--trim=false", "--wrap", "-1"}
	case 11:
		args = []string{"sam", "variants", "-s", samf, "-t", "1", "-a", gb8, "-o", out}
	case 12:
		toStdout = true
		args = []string{"sam", "toPairAlign", "-s", samf, "-r", ref8, "-t", "1", "-o", "stdout", "--start", "-1", "--end", "-1", "--wrap", "-1", vBoolFlag("omit-reference", vBool("omitReference")), "--skip-insertions=false"}
	case 13:
		dir = vDir() + "/pairs"
		args = []string{"sam", "toPairAlign", "-s", samf, "-r", ref8, "-t", "1", "-o", dir, "--start", "-1", "--end", "-1", "--wrap", "-1", vBoolFlag("omit-reference", vBool("omitReference")), "--skip-insertions=false"}
	}
	run := func() (error, int) {
		if toStdout {
			vStdoutToFile()
		}
		err := vCLI(args...)
		n := 0
		switch {
		case toStdout:
			n = len(vStdout())
		case dir != "":
			a, b := len(vReadFile(dir+"/q1.fasta")), len(vReadFile(dir+"/q2.fasta"))
			n = a
			if b > n {
				n = b
			}
		default:
			n = len(vReadFile(out))
		}
		return err, n
	}
	e0, total := run()
	vAssert("C19.cli.limit.unlimited-run-ok", e0 == nil && total > 0)
	n := vChoice("accepted", total+1)
	vFileSizeLimit(n)
	err, _ := run()
	vFileSizeLimit(-1)
	if n < total {
		vAssert("C19.cli.limit.failed-write-is-reported", err != nil)
	} else {
		vAssert("C19.cli.limit.room-for-everything-no-error", err == nil)
	}
}

// VH_C01_cli: the `sam toMultiAlign` command line (--start/--end, --pad, --wrap, --threads) is wired to the
// library call as documented.
func VH_C01_cli() {
	samf := vFile("in.sam", []byte(vCliSam))
	pad := vBool("pad")
	wrap := []int{-1, 3, 8}[vChoice("wrap", 3)]
	threads := 1 + vChoice("threads", 2)
	start, end := -1, -1
	switch vChoice("window", 4) {
	case 1:
		start = 1 + vChoice("start", 8)
	case 2:
		end = 1 + vChoice("end", 8)
	case 3:
		start = 1 + vChoice("start", 8)
		end = 1 + vChoice("end", 8)
		vAssume(start <= end)
	}
	out := vFile("out.fa", nil)
	e1 := vCLI("sam", "toMultiAlign", "-s", samf, "-t", strconv.Itoa(threads), "-o", out, "--start", strconv.Itoa(start), "--end", strconv.Itoa(end),
		vBoolFlag("pad", pad), "--wrap", strconv.Itoa(wrap), "--trimstart", "-1", "--trimend", "-1", "--trim=false")
	w := &vCapture{}
	e2 := sam.ToMultiAlign(bytes.NewReader([]byte(vCliSam)), w, wrap, start, end, pad, 1)
	vAssert("C01.cli.run-ok", e1 == nil && e2 == nil)
	vAssert("C01.cli.equals-library-call", vReadFile(out) == string(w.buf) && len(w.buf) > 0)
}
