#!/bin/sh
# usage: tools/seed_confirm.sh <seeded-dir-name>
# Re-confirms a stored seeded change in a scratch worktree of /repo (under /tmp, removed afterwards): the patch
# applies and builds, the demonstration test fails with it and passes without it. (No `git stash`: the stash is
# shared between the worktrees of one repository.)
export GOFLAGS=-mod=mod GOPROXY=off GOSUMDB=off GOTOOLCHAIN=local
d=/verif/seeded/$1
demo=$(python3 -c "import json;print(json.load(open('$d/meta.json'))['demo_test'])")
wt=$(mktemp -d /tmp/seedwt.XXXXXX); rmdir "$wt"
git -C /repo worktree add -q --detach "$wt" HEAD || exit 2
cd "$wt"
a=ok; git apply "$d/patch.diff" || a=FAIL
b=ok; go build ./... >/dev/null 2>&1 || b=FAIL
s=skipped
if [ "$2" = suite ]; then s=ok; go test -vet=off -count=1 ./... >/dev/null 2>&1 || s=FAIL; fi
f=$(ls "$d" | grep '_test.go$' | head -1)
cp "$d/$f" "$demo"
names=$(grep -o 'func Test[A-Za-z0-9_]*' "$demo" | sed 's/func //' | paste -sd'|')
race=$(python3 -c "import json;print('-race' if json.load(open('$d/meta.json')).get('demo_needs_race') else '')")
w=ok; go test $race -vet=off -count=1 -run "^($names)\$" "./$(dirname $demo)" >/dev/null 2>&1 || w=FAIL
git apply -R "$d/patch.diff"
wo=ok; go test $race -vet=off -count=1 -run "^($names)\$" "./$(dirname $demo)" >/dev/null 2>&1 || wo=FAIL
cd /verif
git -C /repo worktree remove --force "$wt"
echo "$1 apply=$a build=$b suite=$s demo_with=$w demo_without=$wo"
