#!/bin/sh
# usage: tools/seed_eval_all.sh [tier] [glob-of-seed-dirs] > report
# For every kept seeded change under /verif/seeded: make a scratch worktree of /repo under /tmp, apply the patch,
# run the check of the seed's property against it (evidence and replays go to a temp dir), remove the worktree.
# Prints one line per seed; a seed counts as caught when the check exits 1 with a VIOLATION line.
tier="${1:-quick}"
cd /verif
for d in seeded/${2:-*}/; do
  n=$(basename "$d")
  [ -f "$d/patch.diff" ] || continue
  prop=$(python3 -c "import json;print(json.load(open('$d/meta.json'))['property'])")
  chk=$(python3 -c "import json;m=json.load(open('$d/meta.json'));print(m.get('caught_by',{}).get('check',m['property']).split()[0])")
  wt=$(mktemp -d /tmp/seedwt.XXXXXX); rmdir "$wt"
  git -C /repo worktree add -q --detach "$wt" HEAD || { echo "$n worktree-failed"; continue; }
  if ! git -C "$wt" apply "/verif/$d/patch.diff"; then echo "$n patch-does-not-apply"; git -C /repo worktree remove --force "$wt"; continue; fi
  res=$(tools/seed_eval.sh "$prop" "$wt" "$tier" "$chk" | grep -v "^WARNING" | head -2 | tr '\n' ' ')
  echo "$n $res"
  git -C /repo worktree remove --force "$wt"
done
git -C /repo worktree prune
