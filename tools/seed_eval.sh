#!/bin/sh
# usage: tools/seed_eval.sh <property-id> <worktree-with-seed-applied> [tier] [check-id]
# runs the check of <check-id> (default: the property) against the scratch worktree; evidence/replay go to a temp dir
id="$1"; wt="$2"; tier="${3:-quick}"; chk="${4:-$id}"
out=$(mktemp -d /tmp/seedout.XXXXXX)
cd /verif
SYMGO_OUT="$out" VERIF_REPO="$wt" bin/symgo run --verif /verif --repo "$wt" --prop "$chk" --tier "$tier" --no-cross > "$out/log" 2>&1
rc=$?
echo "seed=$id check=$chk tier=$tier exit=$rc"
grep -E "^VIOLATION|harness=|INCONCLUSIVE|^OK|KNOWN" "$out/log" | head -8
rm -rf "$out"
