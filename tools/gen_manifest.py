#!/usr/bin/env python3
"""Regenerates /verif/MANIFEST.json from the table below (claimed checks) and properties.jsonl."""
import json, os
V = os.path.dirname(os.path.dirname(os.path.abspath(__file__)))
props = [json.loads(l)['id'] for l in open(os.path.join(V, 'properties.jsonl'))]

TECH = "bounded symbolic execution of the real functions' go/ssa form (symgo) with SMT (z3, QF_BV) discharging every path obligation; counterexamples replayed natively"
NOTE_COMMON = (" Trusted base: go/ssa construction, the symgo interpreter and its library intrinsics (each run re-executes path witnesses"
               " concretely in the interpreter and in the native build and requires agreement), z3 5.1.0 (a sample of discharged obligations is re-checked with z3 4.8.12 and cvc5)."
               " Holds only within the stated bounds; see evidence.coverage.outside_bounds.")

CLAIMED = {
 "C03": dict(
   text="Within W<=3 columns x N<=2 queries (thorough: 4x3) and both gap modes, for EVERY choice of reference/query symbols from the 34 accepted characters the bytes written by the real getSNPs+writeOutput equal the text derived from the base-set definition (solver verdict over all values, not sampling). Bounded, not a proof.",
   note="Assumes records reach getSNPs already encoded by the real encoding tables (done in the harness) and arrive in idx order at the writer (arrival order is C12's subject)." ),
}

NA_REASON = {}

m = {
 "version": 1,
 "setup_cmd": "cd /verif/engine && GOFLAGS=-mod=mod GOPROXY=off GOSUMDB=off GOTOOLCHAIN=local GOWORK=off go build -o ../bin/symgo ./cmd/symgo",
 "hooks": {"guard": "verif",
           "enable": "none needed: harness files are injected with go/packages Overlay (symbolic run) and go test -overlay (native replay); /repo carries no hook code",
           "baseline_off_cmd": "cd /repo && go test -mod=mod -vet=off -count=1 ./...",
           "source_commits": [], "add_only": True},
 "engines": [{"name": "symgo", "path": "/verif/engine", "serves_properties": sorted(CLAIMED),
              "kind_free_text": "bounded symbolic executor for Go SSA (golang.org/x/tools/go/ssa v0.29.0) emitting SMT-LIB2 to long-lived z3 processes; harnesses in /verif/harness call the real gofasta functions"}],
 "checks": [],
 "notes": "All checks: exit 0 = every obligation on every explored path discharged (or only listed known findings), exit 1 = replay-confirmed violation (VIOLATION line), exit 2 = inconclusive (no VIOLATION line). See DESIGN.md.",
 "not_applicable": [],
}
for p in props:
    if p in CLAIMED:
        c = CLAIMED[p]
        m["checks"].append({
            "property_id": p,
            "quick_cmd": f"./check {p} quick",
            "thorough_cmd": f"./check {p} thorough",
            "evidence_file": f"/verif/evidence/{p}.json",
            "replay_cmd_template": "./check replay {path}",
            "engine": "symgo",
            "level_claimed": {"category": "other", "text": c["text"], "design_ref": f"DESIGN.md section 5, {p}"},
            "level_note": c["note"] + NOTE_COMMON,
            "technique": TECH,
        })
    else:
        m["not_applicable"].append({"property_id": p, "reason": NA_REASON.get(p, "check not built yet (work in progress, see DESIGN.md section 5)")})
json.dump(m, open(os.path.join(V, 'MANIFEST.json'), 'w'), indent=1)
print("claimed:", sorted(CLAIMED), "not applicable:", [x["property_id"] for x in m["not_applicable"]])
