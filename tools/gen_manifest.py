#!/usr/bin/env python3
"""Regenerates /verif/MANIFEST.json from the table below (claimed checks) and properties.jsonl."""
import json, os
V = os.path.dirname(os.path.dirname(os.path.abspath(__file__)))
props = [json.loads(l)['id'] for l in open(os.path.join(V, 'properties.jsonl'))]

TECH = "bounded symbolic execution of the real functions' go/ssa form (symgo) with SMT (z3, QF_BV) discharging every path obligation; counterexamples replayed natively"
NOTE_COMMON = (" Several properties also have units that drive the real cobra command tree (rootCmd.Execute) on an in-engine file system and compare with the library call."
" Trusted base: go/ssa construction, the symgo interpreter and its library intrinsics (each run re-executes path witnesses"
               " concretely in the interpreter and in the native build and requires agreement), z3 5.1.0 (a sample of discharged obligations is re-checked with z3 4.8.12 and cvc5)."
               " Holds only within the stated bounds; see evidence.coverage.outside_bounds.")

CLAIMED = {
 "C01": dict(
   text="Bounded symbolic execution of the real toMultiAlign code: one record with symbolic POS, up to O operator types (all nine), lengths and bases is projected exactly (solver verdict over every combination within L<=5/7, O<=2/3, len<=2); overlap precedence over K<=3/4 rows; flank/N/pad/window on an arbitrary raw row; worker + re-ordering writers under every arrival permutation; plus one end-to-end run of ToMultiAlign() on SAM text (biogo parser, 0x4/0x100 filter, goroutines). Bounded, not a proof.",
   note="Assumes SEQ length matches the CIGAR and the alignment fits in the reference; SAM text grammar only on the one concrete file; --threads interleavings are C12's subject."),
 "C02": dict(
   text="The real getOneLinePlusRef/blockToSeqPair/blockToPairwiseAlignment run on a symbolic reference and 1-2 records with symbolic POS/operators/lengths/bases (L<=4/5): equal row lengths, de-gapped reference row = reference, reference gaps exactly at insertion columns, inserted bases in order, and the differential obligation 'query row minus insertion columns == real toMultiAlign --pad row' are discharged on every path; --skip-insertions likewise.",
   note="Assumes no two records insert at the same reference boundary; file/stdout writing and --omit-reference are printing only and not encoded."),
 "C03": dict(
   text="Within W<=3 columns x N<=2 queries (thorough: 4x3) and both gap modes, for EVERY choice of reference/query symbols from the 34 accepted characters the bytes written by the real getSNPs+writeOutput equal the text derived from the base-set definition; the whole SNPs() command function (readers, goroutines, selects, writer) is also run end to end on symbolic FASTA text.",
   note="End-to-end unit runs under the deterministic cooperative schedule (schedules: C12)."),
 "C04": dict(
   text="For nine annotation layouts built through the real region builders (GenBank location parser included) on a symbolic A/C/G/T reference of length 9, and a query that differs at an arbitrary aligned triplet (thorough: every position) with all 17 symbols, the real GetVariantsPair output satisfies: positions mentioned == positions with disjoint base sets; every aa record names a feature and is the dictionary translation of the codon read along the feature (strand, joins, phase) against an independently written standard table for the reference; every unambiguous amino-acid change is called.",
   note="The query codon's product is taken from the real codon dictionary, which C17 decides sound and complete against the standard code (compositional). Ungapped alignments; indels are C05."),
 "C05": dict(
   text="Gap structure fully symbolic (every cell of both rows base-or-gap, W<=5/7): the real GetVariantsPair indel list equals a running-count column scan in ungapped reference coordinates; inserting a both-gap column anywhere leaves the whole mutation list unchanged (relational, W<=4/5); SAM form: single-record CIGARs with symbolic operators give the indels read off the CIGAR.",
   note="Bounded widths; multi-record SAM queries are covered through C02/C11."),
 "C06": dict(
   text="The real findClosest/findClosestN/rearrangeCatchment with the REAL distance functions on T<=3/4 fully symbolic targets (W<=2): members within -d, documented order (distance, completeness desc, file order), exact size, no better target left out, undefined (NaN) distances never displace defined ones, SNP list/distance of the returned pair, plain closest == -n 1. K and -d are case-split by the solver.",
   note="Targets reach the finder in file order through a pre-filled channel; fan-out goroutines are exercised only by the end-to-end units of C12/C18/C19."),
 "C07": dict(
   text="snp and raw distance equal their definitions for every pair of symbols per column (W<=3/5), are symmetric, raw in [0,1], 0 for identical unambiguous sequences; tn93 equals an independent transcription of Tamura-Nei eq. 7 on every count tuple reachable within W<=4/5 (target holding all four bases), and is NaN/Inf exactly where eq. 7 is undefined.",
   note="Column classification is symbolic; the closed-form float expression is evaluated by the real code on each path's concrete counts (no symbolic float arithmetic)."),
 "C08": dict(
   text="whichWay (bin, distance, threshold) against the column-wise definition for all symbol triples (W<=2/3); balance() for all requested/available sizes 0..3/4 incl. the even-fill rule; checkArgs for all option values; findUpDownCatchment (prefix/order/limits/sizes) and --dist-push (k smallest distances, all map orders) on T targets drawn arbitrarily from a 9-sequence menu with symbolic sizes/dists/no-fill/ignore.",
   note="Catchment units use the real whichWay/balance as oracles for classification/sizes, each decided separately against its definition."),
 "C09": dict(
   text="The whole TopRanking() and List() command functions are executed on symbolic query/target alignments (m=2, n<=2, W<=1/2): the four csv/fasta combinations give byte-identical output with one row per query in query order (catchment and --table forms).",
   note="CSV model: unquoted fields; one option set (--dist-all); deterministic cooperative schedule."),
 "C10": dict(
   text="Real getLines + list writer on a symbolic reference and fully symbolic sequence (W<=5/7, any IUPAC reference W<=3/5): ambiguity ranges are exactly the maximal runs, SNP list/counts equal the definition, runs are well formed and separated, the sequence is reconstructible from the row, and the written row text is as specified.",
   note="Equal widths assumed (mismatch: C18)."),
 "C11": dict(
   text="For symbolic single- and two-record queries (L=4/5) the mutation list of the real sam variants path equals that of the variants path on the toPairAlign FASTA form (real wrap -> real FASTA reader -> real GetVariantsPair), and for insertion-free queries on the toMultiAlign --pad row; the default (non --pad) row is a listed known finding when the query leaves reference ends uncovered.",
   note="One CDS 1..3 + intergenic rest as annotation; reference from file."),
 "C12": dict(
   text="Goroutine schedules, select choices, arrival orders and map iteration orders are symbolic inputs: every command function runs end to end on the engine's cooperative scheduler under every schedule with <=1 (thorough 2) deviations from the default, for --threads 0..3 and 1..3 processors; re-ordering stages under every arrival permutation (n<=4/5); map-ranging code under every iteration order. Output bytes must equal the default-order output. On every explored path (success and error paths of all commands) a happens-before data-race analysis (vector clocks over go / channel / WaitGroup edges, every load, store, append, copy and map operation) must find no unordered conflicting accesses.",
   note="Preemption between channel operations and GOMAXPROCS are not modelled; accesses inside sync, runtime, fmt, os, reflect, time, regexp, cobra/pflag are not tracked by the race analysis. Output counterexamples that fix a schedule are confirmed by deterministic re-execution in the interpreter; race counterexamples are confirmed on the native build with the Go race detector on the same input."),
 "C13": dict(
   text="snps --aggregate on symbolic sequences (N<=2/3) and the shared variants aggregate writer on every subset assignment of a 3/5-mutation pool to 3 sequences (with/without the reference record, --append-snps on/off): each distinct mutation once, frequency = count/n to 9 decimals, kept iff >= threshold for thresholds equal to occurring frequencies, ordered by position.",
   note="Float frequency compared as the same host expression; counts concrete per path."),
 "C14": dict(
   text="For eight layouts rendered as GenBank and as GFF3 text around a symbolic reference, the WHOLE Variants() command (both annotation parsers, location parser, region builders, reader, goroutines, writer) gives identical mutations (up to order at one position) for a symbolic query.",
   note="Bounded family of annotation texts, not arbitrary text; GFF phase convention as in /repo's resources."),
 "C15": dict(
   text="Relational obligations on the real code: toMultiAlign window/pad vs untrimmed row (arbitrary raw row, all s<=e); toPairAlign trim = cut from column of base s to column of base e (arbitrary gapped pair); wrap only re-breaks lines (all widths); variants --start/--end alone or together keep exactly s<=p<=e (both writers); whole Variants() on stdin (hidden reader type, reference first) == file run.",
   note="Includes the real command line (cobra flag parsing on an in-engine file system): legacy --trim/--trimstart/--trimend vs --start/--end for every window and either bound alone; variants --msa stdin vs file."),
 "C16": dict(
   text="Each of the five real FASTA reading loops on N<=5/7 fully symbolic bytes (every value 0..255; plain-text reader ASCII) either yields records or an error on every feasible path, with no panic and no blocked channel operation; four readers agree on valid files under symbolic layout (line width, case, LF/CRLF, trailing newline, description) with score/counts of the sequence; each documented corruption is rejected by each reader.",
   note="bufio.Scanner/strings.Fields are engine models (stated in evidence.trusted_base); lines beyond 1 MiB outside."),
 "C17": dict(
   text="Finite domain decided outright: one symbolic codon covers all 15^3 IUPAC codons (64 expansions unrolled against an independent standard table): dictionary sound and complete, Translate X/error exactly when absent; complement tables over all 32 characters (set semantics, case, involution, encoded form commutes); string/record reverse-complement on length <=4/6.",
   note="Upper-case codon symbols (the dictionary's domain)."),
 "C18": dict(
   text="Every command function is run end to end on valid inputs turned invalid by each documented corruption (kind, affected record first/middle/last, offending byte symbolic): a non-nil error is returned in every case; sam.checkArgs decided for all 64-bit coordinates.",
   note="Exit status mapping (cmd/root.go) and cobra parsing are read, not encoded; deterministic cooperative schedule."),
 "C19": dict(
   text="Every command function that writes to an io.Writer is run end to end with a writer whose k-th Write fails, k case-split by the solver over every write of the run: a failure is always reported as a returned error; no failure, no error.",
   note="sam toPairAlign writes to os.Stdout/files it opens itself (not injectable); short writes outside."),
}

NA_REASON = {}

m = {
 "version": 1,
 "setup_cmd": "cd /verif/engine && GOFLAGS=-mod=mod GOPROXY=off GOSUMDB=off GOTOOLCHAIN=local GOWORK=off go build -o ../bin/symgo ./cmd/symgo",
 "hooks": {"guard": "verif",
           "enable": "none needed: harness files are injected with go/packages Overlay (symbolic run) and go test -overlay (native replay); /repo carries no hook code",
           "baseline_off_cmd": "cd /repo && go test -mod=mod -vet=off -count=1 ./...",
           "source_commits": [], "add_only": True},
 "engines": [{"name": "symgo", "path": "/verif/engine", "serves_properties": sorted(CLAIMED),
              "kind_free_text": "bounded symbolic executor for Go SSA (golang.org/x/tools/go/ssa v0.29.0) emitting SMT-LIB2 to long-lived z3 processes; harnesses in /verif/harness call the real gofasta functions"}],
 "checks": [],
 "notes": "All checks: exit 0 = every obligation on every explored path discharged (or only listed known findings), exit 1 = replay-confirmed violation (VIOLATION line), exit 2 = inconclusive (no VIOLATION line). See DESIGN.md.",
 "not_applicable": [],
}
for p in props:
    if p in CLAIMED:
        c = CLAIMED[p]
        m["checks"].append({
            "property_id": p,
            "quick_cmd": f"./check {p} quick",
            "thorough_cmd": f"./check {p} thorough",
            "evidence_file": f"/verif/evidence/{p}.json",
            "replay_cmd_template": "./check replay {path}",
            "engine": "symgo",
            "level_claimed": {"category": "other", "text": c["text"], "design_ref": f"DESIGN.md section 5, {p}"},
            "level_note": c["note"] + NOTE_COMMON,
            "technique": TECH,
        })
    else:
        m["not_applicable"].append({"property_id": p, "reason": NA_REASON.get(p, "check not built yet (work in progress, see DESIGN.md section 5)")})
json.dump(m, open(os.path.join(V, 'MANIFEST.json'), 'w'), indent=1)
print("claimed:", sorted(CLAIMED), "not applicable:", [x["property_id"] for x in m["not_applicable"]])
