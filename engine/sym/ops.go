package sym

import (
	"fmt"
	"go/token"
	"go/types"
	"math"
	"unicode/utf8"

	"golang.org/x/tools/go/ssa"
)

func (ip *Interp) unop(in *ssa.UnOp, x Value) Value {
	T := ip.p.T
	switch in.Op {
	case token.MUL:
		return ip.load(x)
	case token.ARROW:
		v, ok := ip.chanRecv(x)
		if in.CommaOk {
			return TupleV{v, T.Bool(ok)}
		}
		return v
	case token.NOT:
		return T.Not(x.(*Term))
	case token.SUB:
		switch x := x.(type) {
		case *Term:
			return T.Neg(x)
		case float64:
			return ip.roundF(in.Type(), -x)
		}
	case token.XOR:
		return T.Not(x.(*Term))
	}
	if op, ok := x.(*Opaque); ok {
		unsupported("unop on opaque (%s)", op.Why)
	}
	panic(engineError{fmt.Sprintf("unop %s on %T", in.Op, x)})
}

func (ip *Interp) roundF(t types.Type, f float64) float64 {
	if b, ok := t.Underlying().(*types.Basic); ok && b.Kind() == types.Float32 {
		return float64(float32(f))
	}
	return f
}

// strEq builds the equality term of two strings.
func (ip *Interp) strEq(a, b *StrV) *Term {
	T := ip.p.T
	if a.Len() != b.Len() {
		return T.False
	}
	if a.IsConc() && b.IsConc() {
		return T.Bool(a.S == b.S)
	}
	ab, bb := ip.strBytes(a), ip.strBytes(b)
	r := T.True
	for i := range ab {
		r = T.And(r, T.Cmp(OpEq, ab[i], bb[i]))
		if r == T.False {
			return r
		}
	}
	return r
}

// strLess builds a < b (lexicographic, bytewise).
func (ip *Interp) strLess(a, b *StrV) *Term {
	T := ip.p.T
	if a.IsConc() && b.IsConc() {
		return T.Bool(a.S < b.S)
	}
	ab, bb := ip.strBytes(a), ip.strBytes(b)
	n := len(ab)
	if len(bb) < n {
		n = len(bb)
	}
	// res for the tail
	res := T.Bool(len(ab) < len(bb))
	for i := n - 1; i >= 0; i-- {
		lt := T.Cmp(OpUlt, ab[i], bb[i])
		eq := T.Cmp(OpEq, ab[i], bb[i])
		res = T.Or(lt, T.And(eq, res))
	}
	return res
}

// valEq builds the equality term of two values of static type t.
func (ip *Interp) valEq(a, b Value) *Term {
	T := ip.p.T
	switch a := a.(type) {
	case *Term:
		bt, ok := b.(*Term)
		if !ok {
			return T.False
		}
		if a.W != bt.W {
			return T.False
		}
		return T.Cmp(OpEq, a, bt)
	case float64:
		bf, ok := b.(float64)
		return T.Bool(ok && a == bf)
	case *StrV:
		bs, ok := b.(*StrV)
		if !ok {
			return T.False
		}
		return ip.strEq(a, bs)
	case Pointer:
		bp, ok := b.(Pointer)
		if !ok {
			return T.False
		}
		if a.Sym != nil || bp.Sym != nil {
			panic(engineError{"comparison of symbolic references"})
		}
		return T.Bool(a.Slot == bp.Slot)
	case StructV:
		bs := b.(StructV)
		r := T.True
		for i := range a {
			r = T.And(r, ip.valEq(a[i], bs[i]))
		}
		return r
	case ArrayV:
		bs := b.(ArrayV)
		r := T.True
		for i := range a {
			r = T.And(r, ip.valEq(a[i], bs[i]))
		}
		return r
	case IfaceV:
		bi, ok := b.(IfaceV)
		if !ok {
			return T.False
		}
		if a.T == nil || bi.T == nil {
			return T.Bool(a.T == nil && bi.T == nil)
		}
		if !types.Identical(a.T, bi.T) {
			return T.False
		}
		return ip.valEq(a.V, bi.V)
	case *MapV:
		bm, _ := b.(*MapV)
		return T.Bool(a == bm)
	case *ChanV:
		bc, _ := b.(*ChanV)
		return T.Bool(a == bc)
	case SliceV:
		bs := b.(SliceV)
		if a.Data != nil && bs.Data != nil {
			panic(engineError{"slice comparison"})
		}
		return T.Bool(a.Data == nil && bs.Data == nil)
	case *ssa.Function:
		bf, ok := b.(*ssa.Function)
		if ok {
			return T.Bool(a == bf)
		}
		return T.Bool(a == nil && b == nil)
	case *Closure:
		if bf, ok := b.(*ssa.Function); ok && bf == nil {
			return T.False
		}
		bc, ok := b.(*Closure)
		return T.Bool(ok && bc == a)
	case *HostObj:
		bh, _ := b.(*HostObj)
		return T.Bool(a == bh)
	case nil:
		return T.Bool(b == nil)
	}
	if op, ok := a.(*Opaque); ok {
		unsupported("comparison with opaque (%s)", op.Why)
	}
	panic(engineError{fmt.Sprintf("valEq on %T", a)})
}

func (ip *Interp) binop(op token.Token, t types.Type, x, y Value, in ssa.Instruction) Value {
	T := ip.p.T
	switch op {
	case token.EQL:
		return ip.valEq(x, y)
	case token.NEQ:
		return T.Not(ip.valEq(x, y))
	}
	// the runtime's "noescape" idiom: a pointer converted to uintptr and combined with the constant 0
	// (x ^ 0, x | 0, x + 0) is the same pointer
	if p, ok := x.(Pointer); ok {
		if c, ok := y.(*Term); ok && c.IsConst() && c.C == 0 && (op == token.XOR || op == token.OR || op == token.ADD || op == token.SUB) {
			return p
		}
	}
	switch xv := x.(type) {
	case *Term:
		yv, ok := y.(*Term)
		if !ok {
			break
		}
		signed := isSigned(t)
		if xv.W == 0 {
			// booleans: only == and != reach here normally
			break
		}
		switch op {
		case token.ADD:
			return T.Bin(OpAdd, xv, yv)
		case token.SUB:
			return T.Bin(OpSub, xv, yv)
		case token.MUL:
			if !xv.IsConst() && !yv.IsConst() {
				ip.p.note("symbolic*symbolic multiplication")
			}
			return T.Bin(OpMul, xv, yv)
		case token.QUO, token.REM:
			if !ip.p.Branch(T.Not(T.Cmp(OpEq, yv, T.Const(yv.W, 0)))) {
				ip.goPanic("integer divide by zero")
			}
			o := OpUDiv
			if op == token.REM {
				o = OpURem
			}
			if signed {
				o = OpSDiv
				if op == token.REM {
					o = OpSRem
				}
			}
			return T.Bin(o, xv, yv)
		case token.AND:
			return T.Bin(OpAnd, xv, yv)
		case token.OR:
			return T.Bin(OpOr, xv, yv)
		case token.XOR:
			return T.Bin(OpXor, xv, yv)
		case token.AND_NOT:
			return T.Bin(OpAnd, xv, T.Not(yv))
		case token.SHL, token.SHR:
			// normalise the shift count to x's width (saturating)
			cnt := yv
			if cnt.W > xv.W {
				big := T.Not(T.Cmp(OpUlt, cnt, T.Const(cnt.W, uint64(xv.W))))
				cnt = T.Ite(big, T.Const(xv.W, uint64(xv.W)), T.Extract(cnt, xv.W-1, 0))
			} else if cnt.W < xv.W {
				cnt = T.Zext(cnt, xv.W)
			}
			if op == token.SHL {
				return T.Bin(OpShl, xv, cnt)
			}
			if signed {
				return T.Bin(OpAShr, xv, cnt)
			}
			return T.Bin(OpLShr, xv, cnt)
		case token.LSS:
			if signed {
				return T.Cmp(OpSlt, xv, yv)
			}
			return T.Cmp(OpUlt, xv, yv)
		case token.LEQ:
			if signed {
				return T.Cmp(OpSle, xv, yv)
			}
			return T.Cmp(OpUle, xv, yv)
		case token.GTR:
			if signed {
				return T.Cmp(OpSlt, yv, xv)
			}
			return T.Cmp(OpUlt, yv, xv)
		case token.GEQ:
			if signed {
				return T.Cmp(OpSle, yv, xv)
			}
			return T.Cmp(OpUle, yv, xv)
		}
	case float64:
		yv, ok := y.(float64)
		if !ok {
			break
		}
		switch op {
		case token.ADD:
			return ip.roundF(t, xv+yv)
		case token.SUB:
			return ip.roundF(t, xv-yv)
		case token.MUL:
			return ip.roundF(t, xv*yv)
		case token.QUO:
			return ip.roundF(t, xv/yv)
		case token.LSS:
			return T.Bool(xv < yv)
		case token.LEQ:
			return T.Bool(xv <= yv)
		case token.GTR:
			return T.Bool(xv > yv)
		case token.GEQ:
			return T.Bool(xv >= yv)
		}
	case *StrV:
		yv, ok := y.(*StrV)
		if !ok {
			break
		}
		switch op {
		case token.ADD:
			if xv.IsConc() && yv.IsConc() {
				return mkStr(xv.S + yv.S)
			}
			a, b := ip.strBytes(xv), ip.strBytes(yv)
			r := make([]*Term, 0, len(a)+len(b))
			r = append(r, a...)
			r = append(r, b...)
			return &StrV{Sym: r}
		case token.LSS:
			return ip.strLess(xv, yv)
		case token.GTR:
			return ip.strLess(yv, xv)
		case token.LEQ:
			return T.Not(ip.strLess(yv, xv))
		case token.GEQ:
			return T.Not(ip.strLess(xv, yv))
		}
	}
	if o, ok := x.(*Opaque); ok {
		unsupported("binop on opaque (%s)", o.Why)
	}
	if o, ok := y.(*Opaque); ok {
		unsupported("binop on opaque (%s)", o.Why)
	}
	panic(engineError{fmt.Sprintf("binop %s on %T,%T", op, x, y)})
}

func (p *PathCtx) note(s string) {
	for _, n := range p.notes {
		if n == s {
			return
		}
	}
	p.notes = append(p.notes, s)
}

func (ip *Interp) conv(dst, src types.Type, x Value) Value {
	T := ip.p.T
	ud, us := dst.Underlying(), src.Underlying()
	switch x := x.(type) {
	case *Term:
		sb, _ := us.(*types.Basic)
		switch d := ud.(type) {
		case *types.Basic:
			switch {
			case d.Info()&types.IsInteger != 0:
				w := intWidth(d)
				if sb != nil && sb.Info()&types.IsUnsigned == 0 {
					return T.Sext(x, w)
				}
				return T.Zext(x, w)
			case d.Info()&types.IsFloat != 0:
				var f float64
				v := ip.concInt(x)
				if sb != nil && sb.Info()&types.IsUnsigned != 0 {
					f = float64(uint64(v) & mask(x.W))
				} else {
					f = float64(v)
				}
				return ip.roundF(dst, f)
			case d.Info()&types.IsString != 0:
				// integer (rune) to string
				var r *Term
				if sb != nil && sb.Info()&types.IsUnsigned == 0 {
					r = T.Sext(x, 64)
				} else {
					r = T.Zext(x, 64)
				}
				if r.IsConst() {
					return mkStr(string(rune(int64(r.C))))
				}
				if ip.p.Branch(T.Cmp(OpUlt, r, T.Const(64, 0x80))) {
					return strFromTerms([]*Term{T.Extract(r, 7, 0)})
				}
				v := ip.p.Concretize(r)
				return mkStr(string(rune(int64(v))))
			case d.Kind() == types.UnsafePointer:
				unsupported("conversion to unsafe.Pointer")
			}
		}
	case float64:
		switch d := ud.(type) {
		case *types.Basic:
			switch {
			case d.Info()&types.IsFloat != 0:
				return ip.roundF(dst, x)
			case d.Info()&types.IsInteger != 0:
				w := intWidth(d)
				if d.Info()&types.IsUnsigned != 0 {
					return T.Const(w, uint64(x))
				}
				return T.Const(w, uint64(int64(x)))
			}
		}
	case *StrV:
		switch d := ud.(type) {
		case *types.Basic:
			if d.Info()&types.IsString != 0 {
				return x
			}
		case *types.Slice:
			eb := d.Elem().Underlying().(*types.Basic)
			switch eb.Kind() {
			case types.Uint8:
				bs := ip.strBytes(x)
				data := make([]Value, len(bs))
				for i, b := range bs {
					data[i] = b
				}
				return SliceV{Data: data}
			case types.Int32:
				rs := ip.strRunes(x)
				data := make([]Value, len(rs))
				for i, r := range rs {
					data[i] = r.r
				}
				return SliceV{Data: data}
			}
		}
	case SliceV:
		if d, ok := ud.(*types.Basic); ok && d.Info()&types.IsString != 0 {
			se := us.(*types.Slice).Elem().Underlying().(*types.Basic)
			switch se.Kind() {
			case types.Uint8:
				ts := make([]*Term, len(x.Data))
				for i, e := range x.Data {
					ts[i] = e.(*Term)
				}
				return strFromTerms(ts)
			case types.Int32:
				var out []*Term
				for _, e := range x.Data {
					r := e.(*Term)
					if !r.IsConst() {
						if ip.p.Branch(T.Cmp(OpUlt, r, T.Const(32, 0x80))) {
							out = append(out, T.Extract(r, 7, 0))
							continue
						}
						v := ip.p.Concretize(r)
						r = T.Const(32, v)
					}
					for _, b := range []byte(string(rune(int32(r.C)))) {
						out = append(out, T.Const(8, uint64(b)))
					}
				}
				return strFromTerms(out)
			}
		}
		if _, ok := ud.(*types.Slice); ok {
			return x
		}
	case Pointer:
		return x
	case *Opaque:
		return x
	}
	unsupported("conversion %s -> %s (%T)", src, dst, x)
	return nil
}

type runeAt struct {
	r    *Term // 32-bit
	off  int
	size int
}

// strRunes decodes a string into runes. Symbolic bytes are forked on ASCII-ness; a non-ASCII
// symbolic byte makes the remaining bytes concrete.
func (ip *Interp) strRunes(s *StrV) []runeAt {
	T := ip.p.T
	var out []runeAt
	if s.IsConc() {
		for i, r := range s.S {
			_, sz := utf8.DecodeRuneInString(s.S[i:])
			out = append(out, runeAt{T.Const(32, uint64(uint32(r))), i, sz})
		}
		return out
	}
	bs := s.Sym
	i := 0
	for i < len(bs) {
		b := bs[i]
		if !b.IsConst() {
			if ip.p.Branch(T.Cmp(OpUlt, b, T.Const(8, 0x80))) {
				out = append(out, runeAt{T.Zext(b, 32), i, 1})
				i++
				continue
			}
			// concretise up to 4 bytes
			buf := make([]byte, 0, 4)
			for j := i; j < len(bs) && j < i+4; j++ {
				buf = append(buf, byte(ip.p.Concretize(bs[j])))
			}
			r, sz := utf8.DecodeRune(buf)
			out = append(out, runeAt{T.Const(32, uint64(uint32(r))), i, sz})
			i += sz
			continue
		}
		if b.C < 0x80 {
			out = append(out, runeAt{T.Const(32, b.C), i, 1})
			i++
			continue
		}
		buf := make([]byte, 0, 4)
		for j := i; j < len(bs) && j < i+4; j++ {
			buf = append(buf, byte(ip.p.Concretize(bs[j])))
		}
		r, sz := utf8.DecodeRune(buf)
		out = append(out, runeAt{T.Const(32, uint64(uint32(r))), i, sz})
		i += sz
	}
	return out
}

// ---- iteration ----

type iterV struct {
	kind  string // "string" or "map"
	runes []runeAt
	pos   int
	m     *MapV
	order []int
}

func (ip *Interp) rangeIter(x Value, t types.Type) Value {
	switch x := x.(type) {
	case *StrV:
		return &iterV{kind: "string", runes: ip.strRunes(x)}
	case *MapV:
		it := &iterV{kind: "map", m: x}
		ip.raceMap(x, false)
		if x != nil {
			it.order = ip.mapOrder(x)
		}
		return it
	}
	unsupported("range over %T", x)
	return nil
}

func (ip *Interp) iterNext(it *iterV, in *ssa.Next) Value {
	T := ip.p.T
	if it.kind == "string" {
		if it.pos >= len(it.runes) {
			return TupleV{T.False, T.Const(64, 0), T.Const(32, 0)}
		}
		r := it.runes[it.pos]
		it.pos++
		return TupleV{T.True, T.Const(64, uint64(r.off)), r.r}
	}
	tt := in.Type().(*types.Tuple)
	for it.pos < len(it.order) {
		i := it.order[it.pos]
		it.pos++
		if i < len(it.m.entries) && it.m.entries[i] != nil {
			e := it.m.entries[i]
			return TupleV{T.True, copyVal(e.key), copyVal(e.val)}
		}
	}
	var k, v Value
	if _, ok := tt.At(1).Type().(*types.Basic); ok && tt.At(1).Type().(*types.Basic).Kind() == types.Invalid {
		k = nil
	} else {
		k = ip.zeroOrNil(tt.At(1).Type())
	}
	v = ip.zeroOrNil(tt.At(2).Type())
	return TupleV{T.False, k, v}
}

func (ip *Interp) zeroOrNil(t types.Type) Value {
	if b, ok := t.(*types.Basic); ok && b.Kind() == types.Invalid {
		return nil
	}
	return ip.zero(t)
}

// ---- maps ----

func (m *MapV) live() []*mapEntry {
	var r []*mapEntry
	for _, e := range m.entries {
		if e != nil {
			r = append(r, e)
		}
	}
	return r
}

func (m *MapV) length() int {
	n := 0
	for _, e := range m.entries {
		if e != nil {
			n++
		}
	}
	return n
}

// mapOrder returns the iteration order of the map's entries. By default insertion order;
// with map-order exploration enabled, all permutations are forked (bounded).
func (ip *Interp) mapOrder(m *MapV) []int {
	var idx []int
	for i, e := range m.entries {
		if e != nil {
			idx = append(idx, i)
		}
	}
	if !ip.mapPerm || len(idx) < 2 {
		return idx
	}
	if len(idx) > 5 {
		panic(pathEnd{"budget", "map-order exploration over more than 5 entries"})
	}
	// choose a permutation by successive symbolic choices
	T := ip.p.T
	rest := append([]int(nil), idx...)
	var out []int
	for len(rest) > 1 {
		ip.p.permCounter++
		v := ip.p.NewVar(fmt.Sprintf("maporder!%d", ip.p.permCounter), 8, 0)
		ip.p.Assume(T.Cmp(OpUlt, v, T.Const(8, uint64(len(rest)))))
		k := int(ip.p.Concretize(v))
		out = append(out, rest[k])
		rest = append(rest[:k], rest[k+1:]...)
	}
	out = append(out, rest[0])
	ip.p.note("map iteration order explored")
	return out
}

// findEntry locates key in m. Returns the entry index or -1. May fork on symbolic key equality.
func (ip *Interp) findEntry(m *MapV, key Value) int {
	if ck, ok := concKey(key); ok && m.allConc {
		if i, ok := m.index[ck]; ok {
			return i
		}
		return -1
	}
	for i, e := range m.entries {
		if e == nil {
			continue
		}
		eq := ip.valEq(e.key, key)
		if ip.p.Branch(eq) {
			return i
		}
	}
	return -1
}

func (ip *Interp) lookup(in *ssa.Lookup, x Value, key Value) Value {
	T := ip.p.T
	if s, ok := x.(*StrV); ok {
		return ip.strIndex(s, ip.toIdx(key, in.Index.Type()))
	}
	m, ok := x.(*MapV)
	if !ok {
		if o, ok := x.(*Opaque); ok {
			unsupported("lookup in opaque (%s)", o.Why)
		}
		panic(engineError{fmt.Sprintf("lookup in %T", x)})
	}
	ip.raceMap(m, false)
	vt := in.X.Type().Underlying().(*types.Map).Elem()
	var v Value
	found := T.False
	if m != nil {
		_, keyConc := concKey(key)
		if !keyConc && m.allConc && m.length() > 0 {
			// symbolic key into a map with concrete distinct keys: try an ite-chain
			if r, okc, done := ip.iteLookup(m, key); done {
				if in.CommaOk {
					return TupleV{r, okc}
				}
				// zero when absent
				z := ip.zero(vt)
				return ip.iteVal(okc, r, z)
			}
		}
		i := ip.findEntry(m, key)
		if i >= 0 {
			v = copyVal(m.entries[i].val)
			found = T.True
		}
	}
	if v == nil {
		v = ip.zero(vt)
	}
	if in.CommaOk {
		return TupleV{v, found}
	}
	return v
}

// iteVal builds ite(c, a, b) for scalar/string values of equal shape.
func (ip *Interp) iteVal(c *Term, a, b Value) Value {
	T := ip.p.T
	if c.IsConst() {
		if c.C == 1 {
			return a
		}
		return b
	}
	switch av := a.(type) {
	case *Term:
		return T.Ite(c, av, b.(*Term))
	case *StrV:
		bv := b.(*StrV)
		if av.Len() != bv.Len() {
			if ip.p.Branch(c) {
				return a
			}
			return b
		}
		ab, bb := ip.strBytes(av), ip.strBytes(bv)
		r := make([]*Term, len(ab))
		for i := range ab {
			r[i] = T.Ite(c, ab[i], bb[i])
		}
		return strFromTerms(r)
	}
	if ip.p.Branch(c) {
		return a
	}
	return b
}

// iteLookup handles a symbolic key against concrete distinct keys when all values have one shape.
func (ip *Interp) iteLookup(m *MapV, key Value) (Value, *Term, bool) {
	T := ip.p.T
	ents := m.live()
	// shape check
	switch v0 := ents[0].val.(type) {
	case *Term:
		for _, e := range ents {
			t, ok := e.val.(*Term)
			if !ok || t.W != v0.W {
				return nil, nil, false
			}
		}
		var res *Term = T.Const(v0.W, 0)
		okc := T.False
		for i := len(ents) - 1; i >= 0; i-- {
			eq := ip.valEq(ents[i].key, key)
			if eq == T.False {
				continue
			}
			res = T.Ite(eq, ents[i].val.(*Term), res)
			okc = T.Or(eq, okc)
		}
		return res, okc, true
	case *StrV:
		l := v0.Len()
		for _, e := range ents {
			s, ok := e.val.(*StrV)
			if !ok || s.Len() != l {
				return nil, nil, false
			}
		}
		res := make([]*Term, l)
		for k := range res {
			res[k] = T.Const(8, 0)
		}
		okc := T.False
		for i := len(ents) - 1; i >= 0; i-- {
			eq := ip.valEq(ents[i].key, key)
			if eq == T.False {
				continue
			}
			vb := ip.strBytes(ents[i].val.(*StrV))
			for k := range res {
				res[k] = T.Ite(eq, vb[k], res[k])
			}
			okc = T.Or(eq, okc)
		}
		// when absent the Go zero value is "", of another length: fork on presence
		if !ip.p.Branch(okc) {
			return mkStr(""), T.False, true
		}
		return strFromTerms(res), T.True, true
	}
	return nil, nil, false
}

func (ip *Interp) mapUpdate(mv Value, key, val Value) {
	m, ok := mv.(*MapV)
	if !ok {
		panic(engineError{fmt.Sprintf("map update on %T", mv)})
	}
	if m == nil {
		ip.goPanic("assignment to entry in nil map")
	}
	ip.raceMap(m, true)
	i := ip.findEntry(m, key)
	if i >= 0 {
		m.entries[i].val = copyVal(val)
		return
	}
	ck, conc := concKey(key)
	m.entries = append(m.entries, &mapEntry{key: copyVal(key), val: copyVal(val)})
	if conc && m.allConc {
		m.index[ck] = len(m.entries) - 1
	} else {
		m.allConc = false
	}
}

func (ip *Interp) mapDelete(m *MapV, key Value) {
	if m == nil {
		return
	}
	ip.raceMap(m, true)
	i := ip.findEntry(m, key)
	if i < 0 {
		return
	}
	if m.allConc {
		if ck, ok := concKey(m.entries[i].key); ok {
			delete(m.index, ck)
		}
	}
	m.entries[i] = nil
	// recompute allConc if emptied
	if m.length() == 0 {
		m.entries = nil
		m.index = map[string]int{}
		m.allConc = true
	}
}

// ---- builtins ----

func (ip *Interp) callBuiltin(b *ssa.Builtin, args []Value, site ssa.Instruction) Value {
	T := ip.p.T
	switch b.Name() {
	case "SliceData":
		// unsafe.SliceData: a handle on the backing array, only ever handed to unsafe.String / unsafe.Slice
		sl, _ := args[0].(SliceV)
		return &HostObj{Kind: "slicedata", Data: sl.Data}
	case "StringData":
		st, _ := args[0].(*StrV)
		bs := ip.strBytes(st)
		d := make([]Value, len(bs))
		for i, b := range bs {
			d[i] = b
		}
		return &HostObj{Kind: "slicedata", Data: d}
	case "String":
		// unsafe.String(ptr, len): the bytes as they are now (strings are immutable values in the engine)
		h, ok := args[0].(*HostObj)
		n := int(ip.concInt(args[1]))
		if !ok || h.Kind != "slicedata" || n > len(h.Data) {
			if n == 0 {
				return mkStr("")
			}
			unsupported("unsafe.String on %T", args[0])
		}
		ts := make([]*Term, n)
		for i := 0; i < n; i++ {
			ts[i] = h.Data[i].(*Term)
		}
		return strFromTerms(ts)
	case "Slice":
		h, ok := args[0].(*HostObj)
		n := int(ip.concInt(args[1]))
		if !ok || h.Kind != "slicedata" || n > len(h.Data) {
			unsupported("unsafe.Slice on %T", args[0])
		}
		d := make([]Value, n)
		for i := 0; i < n; i++ {
			d[i] = copyVal(h.Data[i])
		}
		return SliceV{Data: d}
	case "len":
		switch x := args[0].(type) {
		case *StrV:
			return T.Const(64, uint64(x.Len()))
		case SliceV:
			return T.Const(64, uint64(len(x.Data)))
		case ArrayV:
			return T.Const(64, uint64(len(x)))
		case Pointer:
			return T.Const(64, uint64(len((*x.Slot).(ArrayV))))
		case *MapV:
			if x == nil {
				return T.Const(64, 0)
			}
			return T.Const(64, uint64(x.length()))
		case *ChanV:
			if x == nil {
				return T.Const(64, 0)
			}
			return T.Const(64, uint64(len(x.buf)))
		}
	case "cap":
		switch x := args[0].(type) {
		case SliceV:
			return T.Const(64, uint64(cap(x.Data)))
		case ArrayV:
			return T.Const(64, uint64(len(x)))
		case Pointer:
			return T.Const(64, uint64(len((*x.Slot).(ArrayV))))
		case *ChanV:
			if x == nil {
				return T.Const(64, 0)
			}
			return T.Const(64, uint64(x.cap))
		}
	case "append":
		dst := args[0].(SliceV)
		var add []Value
		switch s := args[1].(type) {
		case SliceV:
			add = s.Data
		case *StrV:
			for _, t := range ip.strBytes(s) {
				add = append(add, t)
			}
		default:
			panic(engineError{fmt.Sprintf("append of %T", s)})
		}
		if len(add) == 0 {
			return dst
		}
		var esz int64 = 8
		if call, ok := site.(*ssa.Call); ok {
			if st, ok := call.Type().Underlying().(*types.Slice); ok {
				esz = ip.pr.sizeof(st.Elem())
			}
		}
		return ip.appendSlice(dst, add, esz)
	case "copy":
		dst := args[0].(SliceV)
		var src []Value
		switch s := args[1].(type) {
		case SliceV:
			src = s.Data
		case *StrV:
			for _, t := range ip.strBytes(s) {
				src = append(src, t)
			}
		}
		n := len(dst.Data)
		if len(src) < n {
			n = len(src)
		}
		if ip.race != nil {
			ip.raceElems(src[:n], false)
			ip.raceElems(dst.Data[:n], true)
		}
		// handle overlap like memmove
		tmp := make([]Value, n)
		for i := 0; i < n; i++ {
			tmp[i] = copyVal(src[i])
		}
		copy(dst.Data, tmp)
		return T.Const(64, uint64(n))
	case "delete":
		m, _ := args[0].(*MapV)
		ip.mapDelete(m, args[1])
		return nil
	case "close":
		c := args[0].(*ChanV)
		if c == nil {
			ip.goPanic("close of nil channel")
		}
		if c.closed {
			ip.goPanic("close of closed channel")
		}
		c.closed = true
		c.closeVC = ip.raceRelease()
		return nil
	case "panic":
		ip.goPanic("panic: %s", describe(args[0]))
	case "print", "println":
		return nil
	case "min", "max":
		res := args[0]
		for _, a := range args[1:] {
			switch x := res.(type) {
			case *Term:
				y := a.(*Term)
				signed := true
				if call, ok := site.(*ssa.Call); ok {
					signed = isSigned(call.Type())
				}
				var lt *Term
				if signed {
					lt = T.Cmp(OpSlt, y, x)
				} else {
					lt = T.Cmp(OpUlt, y, x)
				}
				if b.Name() == "max" {
					lt = T.Not(T.Or(lt, T.Cmp(OpEq, x, y)))
					// max: pick y when x < y
					res = T.Ite(lt, y, x)
				} else {
					res = T.Ite(lt, y, x)
				}
			case float64:
				y := a.(float64)
				if b.Name() == "max" {
					res = math.Max(x, y)
				} else {
					res = math.Min(x, y)
				}
			default:
				unsupported("min/max on %T", res)
			}
		}
		return res
	case "recover":
		return IfaceV{}
	}
	unsupported("builtin %s on %T", b.Name(), args[0])
	return nil
}

// appendSlice reproduces Go's append, including in-place growth within capacity and
// the runtime's growth policy (growslice, Go 1.20+) for new backing arrays.
func (ip *Interp) appendSlice(dst SliceV, add []Value, elemSize int64) SliceV {
	n := len(dst.Data)
	need := n + len(add)
	if ip.race != nil {
		// append reads the old elements only when it has to move them, and writes the new ones (in place, into
		// the shared backing array, when the capacity allows)
		ip.raceElems(add, false)
		if need <= cap(dst.Data) && dst.Data != nil {
			ip.raceElems(dst.Data[n:need], true)
		} else {
			ip.raceElems(dst.Data, false)
		}
	}
	if need <= cap(dst.Data) && dst.Data != nil {
		nd := dst.Data[:need]
		for i, v := range add {
			nd[n+i] = copyVal(v)
		}
		return SliceV{Data: nd}
	}
	newcap := growCap(cap(dst.Data), need, elemSize)
	if newcap > 1<<22 {
		panic(pathEnd{"budget", "append: slice too large"})
	}
	nd := make([]Value, need, newcap)
	copy(nd, dst.Data)
	for i, v := range add {
		nd[n+i] = copyVal(v)
	}
	// fill spare capacity with typed zeroes lazily: reads beyond len are impossible without reslicing;
	// reslicing up to cap yields zero values, so fill them now.
	if need < newcap {
		var z Value
		if len(add) > 0 {
			z = zeroLike(add[0], ip)
		}
		full := nd[:newcap]
		for i := need; i < newcap; i++ {
			full[i] = copyVal(z)
		}
	}
	return SliceV{Data: nd}
}

func zeroLike(v Value, ip *Interp) Value {
	T := ip.p.T
	switch v := v.(type) {
	case *Term:
		return T.Const(v.W, 0)
	case float64:
		return float64(0)
	case *StrV:
		return mkStr("")
	case StructV:
		r := make(StructV, len(v))
		for i := range v {
			r[i] = zeroLike(v[i], ip)
		}
		return r
	case ArrayV:
		r := make(ArrayV, len(v))
		for i := range v {
			r[i] = zeroLike(v[i], ip)
		}
		return r
	case SliceV:
		return SliceV{}
	case Pointer:
		return Pointer{}
	case IfaceV:
		return IfaceV{}
	case *MapV:
		return (*MapV)(nil)
	case *ChanV:
		return (*ChanV)(nil)
	}
	return nil
}

// size classes of the Go runtime allocator (runtime/sizeclasses.go)
var sizeClasses = []int64{0, 8, 16, 24, 32, 48, 64, 80, 96, 112, 128, 144, 160, 176, 192, 208, 224, 240, 256, 288, 320, 352, 384, 416, 448, 480, 512, 576, 640, 704, 768, 896, 1024, 1152, 1280, 1408, 1536, 1792, 2048, 2304, 2688, 3072, 3200, 3456, 4096, 4864, 5376, 6144, 6528, 6784, 6912, 8192, 9472, 9728, 10240, 10880, 12288, 13568, 14336, 16384, 18432, 19072, 20480, 21760, 24576, 27264, 28672, 32768}

func roundupsize(sz int64) int64 {
	if sz <= 32768 {
		for _, c := range sizeClasses {
			if c >= sz {
				return c
			}
		}
	}
	const page = 8192
	return (sz + page - 1) / page * page
}

func growCap(oldCap, newLen int, elemSize int64) int {
	newcap := oldCap
	doublecap := newcap + newcap
	if newLen > doublecap {
		newcap = newLen
	} else {
		const threshold = 256
		if oldCap < threshold {
			newcap = doublecap
		} else {
			for newcap < newLen {
				newcap += (newcap + 3*threshold) >> 2
			}
		}
	}
	if elemSize <= 0 {
		return newcap
	}
	mem := roundupsize(int64(newcap) * elemSize)
	return int(mem / elemSize)
}

func (pr *Program) sizeof(t types.Type) int64 {
	defer func() { recover() }()
	return types.SizesFor("gc", "amd64").Sizeof(t)
}
