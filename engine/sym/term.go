package sym

import (
	"fmt"
	"strconv"
	"strings"
)

// Op is a term operator.
type Op uint8

const (
	OpConst Op = iota
	OpVar
	OpAdd
	OpSub
	OpMul
	OpUDiv
	OpSDiv
	OpURem
	OpSRem
	OpAnd
	OpOr
	OpXor
	OpNot // bitwise not (BV) / logical not (Bool)
	OpNeg
	OpShl
	OpLShr
	OpAShr
	OpEq
	OpUlt
	OpUle
	OpSlt
	OpSle
	OpIte
	OpZext  // p1 = new width
	OpSext  // p1 = new width
	OpExtr  // p1 = hi, p2 = lo
	OpBAnd  // boolean and
	OpBOr   // boolean or
	OpB2BV  // bool -> bv1? not used
	OpTable // args[0] index (BV), table id p1 : lookup in constant table
)

var opNames = map[Op]string{
	OpAdd: "bvadd", OpSub: "bvsub", OpMul: "bvmul", OpUDiv: "bvudiv", OpSDiv: "bvsdiv",
	OpURem: "bvurem", OpSRem: "bvsrem", OpAnd: "bvand", OpOr: "bvor", OpXor: "bvxor",
	OpNeg: "bvneg", OpShl: "bvshl", OpLShr: "bvlshr", OpAShr: "bvashr", OpEq: "=",
	OpUlt: "bvult", OpUle: "bvule", OpSlt: "bvslt", OpSle: "bvsle", OpIte: "ite",
	OpBAnd: "and", OpBOr: "or",
}

// Term is a hash-consed SMT term. W==0 means Bool, otherwise a bit-vector of width W.
type Term struct {
	Op   Op
	W    int
	Args []*Term
	C    uint64 // constant value (OpConst); for Bool 0/1
	Name string // OpVar
	P1   int
	P2   int
	id   int
	// cached upper bound (unsigned) for cheap range reasoning; 0 = unknown(all ones)
	emitted bool
	sup     *Term // the single narrow variable this term depends on (nil: none/several/wide)
}

func (t *Term) IsConst() bool { return t.Op == OpConst }
func (t *Term) IsBool() bool  { return t.W == 0 }

func mask(w int) uint64 {
	if w >= 64 {
		return ^uint64(0)
	}
	return (uint64(1) << uint(w)) - 1
}

func signExt(v uint64, w int) int64 {
	if w >= 64 {
		return int64(v)
	}
	sh := uint(64 - w)
	return int64(v<<sh) >> sh
}

// TermCtx owns the hash-consing table. One per path execution.
type TermCtx struct {
	tab    map[string]*Term
	nextID int
	tables []*ConstTable
	tabHash map[uint64][]int
	ops     map[opKey]*Term
	True   *Term
	False  *Term
	supp    map[*Term][]*Term
	suppBad map[*Term]bool
	scrVal   []uint64
	scrEpoch []uint32
	epoch    uint32
}

// ConstTable is a constant lookup table index->value of width W (index width IW).
type ConstTable struct {
	id      int
	IW, W   int
	Vals    []uint64
	emitted bool
}

func NewTermCtx() *TermCtx {
	c := &TermCtx{tab: make(map[string]*Term, 1024), tabHash: map[uint64][]int{}, ops: make(map[opKey]*Term, 4096)}
	c.True = c.Const(0, 1)
	c.False = c.Const(0, 0)
	return c
}

func (c *TermCtx) intern(key string, mk func() *Term) *Term {
	if t, ok := c.tab[key]; ok {
		return t
	}
	t := mk()
	c.nextID++
	t.id = c.nextID
	c.tab[key] = t
	return t
}

func (c *TermCtx) Const(w int, v uint64) *Term {
	if w == 0 {
		v &= 1
	} else {
		v &= mask(w)
	}
	key := "c" + strconv.Itoa(w) + ":" + strconv.FormatUint(v, 16)
	return c.intern(key, func() *Term { return &Term{Op: OpConst, W: w, C: v} })
}

func (c *TermCtx) Bool(b bool) *Term {
	if b {
		return c.True
	}
	return c.False
}

func (c *TermCtx) Var(name string, w int) *Term {
	key := "v" + strconv.Itoa(w) + ":" + name
	return c.intern(key, func() *Term {
		t := &Term{Op: OpVar, W: w, Name: name}
		if w > 0 && w <= 8 {
			t.sup = t
		}
		return t
	})
}

type opKey struct {
	op         Op
	w, p1, p2  int
	n          int
	a0, a1, a2 int
}

func (c *TermCtx) mk(op Op, w int, p1, p2 int, args ...*Term) *Term {
	key := opKey{op: op, w: w, p1: p1, p2: p2, n: len(args)}
	if len(args) > 3 {
		panic("mk: more than three arguments")
	}
	if len(args) > 0 {
		key.a0 = args[0].id
	}
	if len(args) > 1 {
		key.a1 = args[1].id
	}
	if len(args) > 2 {
		key.a2 = args[2].id
	}
	if t, ok := c.ops[key]; ok {
		return t
	}
	as := make([]*Term, len(args))
	copy(as, args)
	t := &Term{Op: op, W: w, Args: as, P1: p1, P2: p2}
	// single-variable support: every function of one narrow variable is a lookup table of it
	var sup *Term
	single := true
	for _, a := range as {
		if a.Op == OpConst {
			continue
		}
		if a.sup == nil {
			single = false
			break
		}
		if sup == nil {
			sup = a.sup
		} else if sup != a.sup {
			single = false
			break
		}
	}
	if single && sup != nil {
		t.sup = sup
		if !(op == OpTable && as[0] == sup) {
			n := 1 << uint(sup.W)
			vals := make([]uint64, n)
			// arguments are constants, the variable itself, or tables of it: one step per value
			direct := len(as) <= 3
			var atab [3][]uint64
			for i, a := range as {
				if !direct {
					break
				}
				switch {
				case a.Op == OpConst, a == sup:
				case a.Op == OpTable && a.Args[0] == sup && len(c.tables[a.P1].Vals) >= n:
					atab[i] = c.tables[a.P1].Vals
				default:
					direct = false
				}
			}
			if direct {
				var av [3]uint64
				for v := 0; v < n; v++ {
					for i, a := range as {
						switch {
						case a.Op == OpConst:
							av[i] = a.C
						case a == sup:
							av[i] = uint64(v)
						default:
							av[i] = atab[i][v]
						}
					}
					vals[v] = c.applyOp(t, av[:len(as)])
				}
			} else {
				model := map[string]uint64{}
				for v := 0; v < n; v++ {
					model[sup.Name] = uint64(v)
					vals[v] = c.Eval(t, model, map[*Term]uint64{})
				}
			}
			r := c.Table(vals, w, sup)
			c.ops[key] = r
			return r
		}
	}
	c.nextID++
	t.id = c.nextID
	c.ops[key] = t
	return t
}

func evalBin(op Op, w int, a, b uint64) uint64 {
	m := mask(w)
	switch op {
	case OpAdd:
		return (a + b) & m
	case OpSub:
		return (a - b) & m
	case OpMul:
		return (a * b) & m
	case OpUDiv:
		if b == 0 {
			return m
		}
		return (a / b) & m
	case OpURem:
		if b == 0 {
			return a
		}
		return (a % b) & m
	case OpSDiv:
		sa, sb := signExt(a, w), signExt(b, w)
		if sb == 0 {
			if sa < 0 {
				return 1
			}
			return m
		}
		if sb == -1 {
			return uint64(-sa) & m
		}
		return uint64(sa/sb) & m
	case OpSRem:
		sa, sb := signExt(a, w), signExt(b, w)
		if sb == 0 {
			return a
		}
		if sb == -1 {
			return 0
		}
		return uint64(sa%sb) & m
	case OpAnd:
		return a & b
	case OpOr:
		return a | b
	case OpXor:
		return (a ^ b) & m
	case OpShl:
		if b >= uint64(w) {
			return 0
		}
		return (a << b) & m
	case OpLShr:
		if b >= uint64(w) {
			return 0
		}
		return (a >> b) & m
	case OpAShr:
		sa := signExt(a, w)
		if b >= uint64(w) {
			if sa < 0 {
				return m
			}
			return 0
		}
		return uint64(sa>>b) & m
	}
	panic("evalBin")
}

func b2u(b bool) uint64 {
	if b {
		return 1
	}
	return 0
}

func evalCmp(op Op, w int, a, b uint64) uint64 {
	switch op {
	case OpEq:
		return b2u(a == b)
	case OpUlt:
		return b2u(a < b)
	case OpUle:
		return b2u(a <= b)
	case OpSlt:
		return b2u(signExt(a, w) < signExt(b, w))
	case OpSle:
		return b2u(signExt(a, w) <= signExt(b, w))
	}
	panic("evalCmp")
}

// Bin builds an arithmetic/bitwise binary op on equal-width BVs.
func (c *TermCtx) Bin(op Op, a, b *Term) *Term {
	if a.W != b.W {
		panic(fmt.Sprintf("Bin width mismatch %d %d op %d", a.W, b.W, op))
	}
	w := a.W
	if a.IsConst() && b.IsConst() {
		return c.Const(w, evalBin(op, w, a.C, b.C))
	}
	// light simplifications
	switch op {
	case OpAdd:
		if a.IsConst() && a.C == 0 {
			return b
		}
		if b.IsConst() && b.C == 0 {
			return a
		}
		// (x + c1) + c2 -> x + (c1+c2)
		if b.IsConst() && a.Op == OpAdd && a.Args[1].IsConst() {
			return c.Bin(OpAdd, a.Args[0], c.Const(w, a.Args[1].C+b.C))
		}
		if a.IsConst() {
			a, b = b, a
		}
	case OpSub:
		if b.IsConst() && b.C == 0 {
			return a
		}
		if a == b {
			return c.Const(w, 0)
		}
		if b.IsConst() {
			return c.Bin(OpAdd, a, c.Const(w, -b.C))
		}
	case OpMul:
		if a.IsConst() {
			a, b = b, a
		}
		if b.IsConst() && b.C == 0 {
			return b
		}
		if b.IsConst() && b.C == 1 {
			return a
		}
	case OpAnd:
		if a.IsConst() {
			a, b = b, a
		}
		if b.IsConst() && b.C == 0 {
			return b
		}
		if b.IsConst() && b.C == mask(w) {
			return a
		}
		if a == b {
			return a
		}
	case OpOr:
		if a.IsConst() {
			a, b = b, a
		}
		if b.IsConst() && b.C == 0 {
			return a
		}
		if a == b {
			return a
		}
	case OpXor:
		if a.IsConst() {
			a, b = b, a
		}
		if b.IsConst() && b.C == 0 {
			return a
		}
		if a == b {
			return c.Const(w, 0)
		}
	case OpShl, OpLShr, OpAShr:
		if b.IsConst() && b.C == 0 {
			return a
		}
	}
	return c.mk(op, w, 0, 0, a, b)
}

// Cmp builds a comparison producing Bool.
func (c *TermCtx) Cmp(op Op, a, b *Term) *Term {
	if a.W != b.W {
		panic(fmt.Sprintf("Cmp width mismatch %d %d", a.W, b.W))
	}
	if a.IsConst() && b.IsConst() {
		return c.Bool(evalCmp(op, a.W, a.C, b.C) == 1)
	}
	if a == b {
		switch op {
		case OpEq, OpUle, OpSle:
			return c.True
		default:
			return c.False
		}
	}
	if op == OpEq {
		if a.W == 0 {
			// bool equality
			if a.IsConst() {
				a, b = b, a
			}
			if b.IsConst() {
				if b.C == 1 {
					return a
				}
				return c.Not(a)
			}
		}
		if a.IsConst() {
			a, b = b, a
		}
		// ite(c, k1, k2) == k  with constants
		if b.IsConst() && a.Op == OpIte && a.Args[1].IsConst() && a.Args[2].IsConst() {
			t1 := a.Args[1].C == b.C
			t2 := a.Args[2].C == b.C
			switch {
			case t1 && t2:
				return c.True
			case t1 && !t2:
				return a.Args[0]
			case !t1 && t2:
				return c.Not(a.Args[0])
			default:
				return c.False
			}
		}
		// zext(x) == k
		if b.IsConst() && a.Op == OpZext {
			in := a.Args[0]
			if b.C > mask(in.W) {
				return c.False
			}
			return c.Cmp(OpEq, in, c.Const(in.W, b.C))
		}
		if a.id > b.id && !b.IsConst() {
			a, b = b, a
		}
	}
	// range-based quick decisions for unsigned compares against constants
	if b.IsConst() && (op == OpUlt || op == OpUle) {
		ub := c.UMax(a)
		if op == OpUlt && ub < b.C {
			return c.True
		}
		if op == OpUle && ub <= b.C {
			return c.True
		}
	}
	if b.IsConst() && (op == OpSlt || op == OpSle) && a.W == 64 {
		ub := c.UMax(a)
		if ub < (1<<62) && signExt(b.C, 64) >= 0 {
			if op == OpSlt && ub < b.C {
				return c.True
			}
			if op == OpSle && ub <= b.C {
				return c.True
			}
		}
	}
	if a.IsConst() && (op == OpSlt || op == OpSle) && b.W == 64 {
		// k < x : if k negative and x known non-negative
		ub := c.UMax(b)
		if ub < (1<<62) && signExt(a.C, 64) < 0 {
			return c.True
		}
	}
	return c.mk(op, 0, 0, 0, a, b)
}

// UMax returns a cheap unsigned upper bound of a BV term.
func (c *TermCtx) UMax(t *Term) uint64 {
	switch t.Op {
	case OpConst:
		return t.C
	case OpZext:
		return c.UMax(t.Args[0])
	case OpAnd:
		a, b := c.UMax(t.Args[0]), c.UMax(t.Args[1])
		if a < b {
			return a
		}
		return b
	case OpIte:
		a, b := c.UMax(t.Args[1]), c.UMax(t.Args[2])
		if a > b {
			return a
		}
		return b
	case OpTable:
		tb := c.tables[t.P1]
		var m uint64
		for _, v := range tb.Vals {
			if v > m {
				m = v
			}
		}
		return m
	case OpAdd:
		a, b := c.UMax(t.Args[0]), c.UMax(t.Args[1])
		if t.W == 64 && a < (1<<62) && b < (1<<62) {
			return a + b
		}
	case OpLShr:
		return c.UMax(t.Args[0])
	}
	return mask(t.W)
}

func (c *TermCtx) Not(a *Term) *Term {
	if a.IsConst() {
		if a.W == 0 {
			return c.Bool(a.C == 0)
		}
		return c.Const(a.W, ^a.C)
	}
	if a.Op == OpNot {
		return a.Args[0]
	}
	return c.mk(OpNot, a.W, 0, 0, a)
}

func (c *TermCtx) Neg(a *Term) *Term {
	if a.IsConst() {
		return c.Const(a.W, -a.C)
	}
	return c.mk(OpNeg, a.W, 0, 0, a)
}

func (c *TermCtx) And(a, b *Term) *Term {
	if a.IsConst() {
		if a.C == 1 {
			return b
		}
		return a
	}
	if b.IsConst() {
		if b.C == 1 {
			return a
		}
		return b
	}
	if a == b {
		return a
	}
	return c.mk(OpBAnd, 0, 0, 0, a, b)
}

func (c *TermCtx) Or(a, b *Term) *Term {
	if a.IsConst() {
		if a.C == 0 {
			return b
		}
		return a
	}
	if b.IsConst() {
		if b.C == 0 {
			return a
		}
		return b
	}
	if a == b {
		return a
	}
	return c.mk(OpBOr, 0, 0, 0, a, b)
}

func (c *TermCtx) Ite(cond, a, b *Term) *Term {
	if cond.IsConst() {
		if cond.C == 1 {
			return a
		}
		return b
	}
	if a == b {
		return a
	}
	if a.W != b.W {
		panic("Ite width mismatch")
	}
	if a.W == 0 && a.IsConst() && b.IsConst() {
		if a.C == 1 {
			return cond
		}
		return c.Not(cond)
	}
	return c.mk(OpIte, a.W, 0, 0, cond, a, b)
}

func (c *TermCtx) Zext(a *Term, w int) *Term {
	if a.W == w {
		return a
	}
	if a.W > w {
		return c.Extract(a, w-1, 0)
	}
	if a.IsConst() {
		return c.Const(w, a.C)
	}
	return c.mk(OpZext, w, w, 0, a)
}

func (c *TermCtx) Sext(a *Term, w int) *Term {
	if a.W == w {
		return a
	}
	if a.W > w {
		return c.Extract(a, w-1, 0)
	}
	if a.IsConst() {
		return c.Const(w, uint64(signExt(a.C, a.W)))
	}
	return c.mk(OpSext, w, w, 0, a)
}

func (c *TermCtx) Extract(a *Term, hi, lo int) *Term {
	w := hi - lo + 1
	if w == a.W {
		return a
	}
	if a.IsConst() {
		return c.Const(w, a.C>>uint(lo))
	}
	if lo == 0 && (a.Op == OpZext || a.Op == OpSext) {
		in := a.Args[0]
		if in.W == w {
			return in
		}
		if in.W > w {
			return c.Extract(in, hi, 0)
		}
		if a.Op == OpZext {
			return c.Zext(in, w)
		}
		return c.Sext(in, w)
	}
	return c.mk(OpExtr, w, hi, lo, a)
}

// Table registers (or finds) a constant table and returns the lookup term.
func (c *TermCtx) Table(vals []uint64, w int, idx *Term) *Term {
	if idx.IsConst() {
		return c.Const(w, vals[idx.C])
	}
	// narrow the index: a zero-extended narrow term indexes only the first 2^k entries
	if w == 0 || true {
		allSame := true
		for _, v := range vals {
			if v != vals[0] {
				allSame = false
				break
			}
		}
		if allSame && len(vals) > 0 {
			return c.Const(w, vals[0])
		}
	}
	for idx.Op == OpZext {
		idx = idx.Args[0]
	}
	if idx.W < 63 && (uint64(1)<<uint(idx.W)) < uint64(len(vals)) {
		vals = vals[:uint64(1)<<uint(idx.W)]
	}
	// callers guarantee idx < len(vals) (bounds are checked before any indexed read), so only the low
	// bits of a wide index matter: narrow it, which keeps wide adders out of the lookup chain
	if idx.W > 16 && len(vals) <= 1<<16 {
		k := 1
		for (1 << uint(k)) < len(vals) {
			k++
		}
		idx = c.Extract(idx, k-1, 0)
		if idx.IsConst() {
			return c.Const(w, vals[idx.C])
		}
		if len(vals) < 1<<uint(k) {
			nv := make([]uint64, 1<<uint(k))
			copy(nv, vals)
			vals = nv
		}
	}
	h := uint64(14695981039346656037)
	h = (h ^ uint64(w)) * 1099511628211
	h = (h ^ uint64(idx.W)) * 1099511628211
	for _, v := range vals {
		h = (h ^ v) * 1099511628211
	}
	ti := -1
	for _, cand := range c.tabHash[h] {
		tb := c.tables[cand]
		if tb.W != w || tb.IW != idx.W || len(tb.Vals) != len(vals) {
			continue
		}
		same := true
		for i, v := range vals {
			if tb.Vals[i] != v {
				same = false
				break
			}
		}
		if same {
			ti = cand
			break
		}
	}
	if ti < 0 {
		ti = len(c.tables)
		cp := make([]uint64, len(vals))
		copy(cp, vals)
		c.tables = append(c.tables, &ConstTable{id: ti, IW: idx.W, W: w, Vals: cp})
		c.tabHash[h] = append(c.tabHash[h], ti)
	}
	return c.mk(OpTable, w, ti, 0, idx)
}

// Eval evaluates a term under a model (missing variables are 0).
func (c *TermCtx) Eval(t *Term, model map[string]uint64, memo map[*Term]uint64) uint64 {
	if t.Op == OpConst {
		return t.C
	}
	if v, ok := memo[t]; ok {
		return v
	}
	var r uint64
	switch t.Op {
	case OpVar:
		r = model[t.Name]
		if t.W == 0 {
			r &= 1
		} else {
			r &= mask(t.W)
		}
	case OpIte:
		if c.Eval(t.Args[0], model, memo) == 1 {
			r = c.Eval(t.Args[1], model, memo)
		} else {
			r = c.Eval(t.Args[2], model, memo)
		}
	default:
		var av [3]uint64
		for i, a := range t.Args {
			av[i] = c.Eval(a, model, memo)
		}
		r = c.applyOp(t, av[:])
	}
	memo[t] = r
	return r
}

// applyOp computes the value of t from the values of its arguments.
func (c *TermCtx) applyOp(t *Term, av []uint64) uint64 {
	switch t.Op {
	case OpAdd, OpSub, OpMul, OpUDiv, OpSDiv, OpURem, OpSRem, OpAnd, OpOr, OpXor, OpShl, OpLShr, OpAShr:
		return evalBin(t.Op, t.W, av[0], av[1])
	case OpEq, OpUlt, OpUle, OpSlt, OpSle:
		return evalCmp(t.Op, t.Args[0].W, av[0], av[1])
	case OpNot:
		if t.W == 0 {
			return 1 - av[0]
		}
		return ^av[0] & mask(t.W)
	case OpNeg:
		return (-av[0]) & mask(t.W)
	case OpIte:
		if av[0] == 1 {
			return av[1]
		}
		return av[2]
	case OpZext:
		return av[0]
	case OpSext:
		return uint64(signExt(av[0], t.Args[0].W)) & mask(t.W)
	case OpExtr:
		return (av[0] >> uint(t.P2)) & mask(t.W)
	case OpBAnd:
		return av[0] & av[1]
	case OpBOr:
		return av[0] | av[1]
	case OpTable:
		tb := c.tables[t.P1]
		if av[0] < uint64(len(tb.Vals)) {
			return tb.Vals[av[0]]
		}
		return 0
	}
	panic("applyOp: op")
}

func sortStr(w int) string {
	if w == 0 {
		return "Bool"
	}
	return "(_ BitVec " + strconv.Itoa(w) + ")"
}

func constStr(w int, v uint64) string {
	if w == 0 {
		if v&1 == 1 {
			return "true"
		}
		return "false"
	}
	if w%4 == 0 {
		return fmt.Sprintf("#x%0*x", w/4, v&mask(w))
	}
	return fmt.Sprintf("#b%0*b", w, v&mask(w))
}

func (t *Term) ref() string {
	switch t.Op {
	case OpConst:
		return constStr(t.W, t.C)
	case OpVar:
		return "|" + t.Name + "|"
	}
	return "t" + strconv.Itoa(t.id)
}

// Emit writes the definitions needed for t (not yet emitted) into sb and returns t's reference.
func (c *TermCtx) Emit(t *Term, sb *strings.Builder) string {
	if t.Op == OpConst {
		return t.ref()
	}
	if t.emitted {
		return t.ref()
	}
	// iterative post-order to avoid deep recursion
	type fr struct {
		t *Term
		i int
	}
	stack := []fr{{t, 0}}
	for len(stack) > 0 {
		f := &stack[len(stack)-1]
		if f.t.emitted || f.t.Op == OpConst {
			stack = stack[:len(stack)-1]
			continue
		}
		if f.i < len(f.t.Args) {
			a := f.t.Args[f.i]
			f.i++
			if !a.emitted && a.Op != OpConst {
				stack = append(stack, fr{a, 0})
			}
			continue
		}
		c.emitOne(f.t, sb)
		f.t.emitted = true
		stack = stack[:len(stack)-1]
	}
	return t.ref()
}

func (c *TermCtx) emitOne(t *Term, sb *strings.Builder) {
	if t.Op == OpVar {
		fmt.Fprintf(sb, "(declare-const |%s| %s)\n", t.Name, sortStr(t.W))
		return
	}
	var body string
	switch t.Op {
	case OpNot:
		if t.W == 0 {
			body = "(not " + t.Args[0].ref() + ")"
		} else {
			body = "(bvnot " + t.Args[0].ref() + ")"
		}
	case OpZext:
		body = fmt.Sprintf("((_ zero_extend %d) %s)", t.W-t.Args[0].W, t.Args[0].ref())
	case OpSext:
		body = fmt.Sprintf("((_ sign_extend %d) %s)", t.W-t.Args[0].W, t.Args[0].ref())
	case OpExtr:
		body = fmt.Sprintf("((_ extract %d %d) %s)", t.P1, t.P2, t.Args[0].ref())
	case OpTable:
		tb := c.tables[t.P1]
		if !tb.emitted {
			c.emitTable(tb, sb)
			tb.emitted = true
		}
		body = fmt.Sprintf("(tbl%d %s)", tb.id, t.Args[0].ref())
	default:
		name, ok := opNames[t.Op]
		if !ok {
			panic(fmt.Sprintf("emit: op %d", t.Op))
		}
		var b strings.Builder
		b.WriteByte('(')
		b.WriteString(name)
		for _, a := range t.Args {
			b.WriteByte(' ')
			b.WriteString(a.ref())
		}
		b.WriteByte(')')
		body = b.String()
	}
	fmt.Fprintf(sb, "(define-fun t%d () %s %s)\n", t.id, sortStr(t.W), body)
}

func (c *TermCtx) emitTable(tb *ConstTable, sb *strings.Builder) {
	// choose most common value as default
	cnt := map[uint64]int{}
	for _, v := range tb.Vals {
		cnt[v]++
	}
	var def uint64
	best := -1
	for v, n := range cnt {
		if n > best || (n == best && v < def) {
			best, def = n, v
		}
	}
	if tb.W == 0 {
		// Boolean table: a disjunction over the smaller of the true/false sets
		ones := 0
		for _, v := range tb.Vals {
			if v&1 == 1 {
				ones++
			}
		}
		want := uint64(1)
		neg := false
		if ones*2 > len(tb.Vals) {
			want, neg = 0, true
		}
		fmt.Fprintf(sb, "(define-fun tbl%d ((i %s)) Bool ", tb.id, sortStr(tb.IW))
		if neg {
			sb.WriteString("(not ")
		}
		sb.WriteString("(or false")
		for i, v := range tb.Vals {
			if v&1 == want {
				fmt.Fprintf(sb, " (= i %s)", constStr(tb.IW, uint64(i)))
			}
		}
		sb.WriteString(")")
		if neg {
			sb.WriteString(")")
		}
		sb.WriteString(")\n")
		return
	}
	fmt.Fprintf(sb, "(define-fun tbl%d ((i %s)) %s ", tb.id, sortStr(tb.IW), sortStr(tb.W))
	n := 0
	for i, v := range tb.Vals {
		if v == def {
			continue
		}
		fmt.Fprintf(sb, "(ite (= i %s) %s ", constStr(tb.IW, uint64(i)), constStr(tb.W, v))
		n++
	}
	sb.WriteString(constStr(tb.W, def))
	sb.WriteString(strings.Repeat(")", n))
	sb.WriteString(")\n")
}

// String renders a term as a (possibly large) SMT expression, for samples.
func (t *Term) String() string {
	return t.str(0)
}

func (t *Term) str(depth int) string {
	if depth > 6 {
		return "…"
	}
	switch t.Op {
	case OpConst:
		if t.W == 0 {
			return constStr(0, t.C)
		}
		return strconv.FormatUint(t.C, 10)
	case OpVar:
		return t.Name
	case OpZext, OpSext:
		return t.Args[0].str(depth)
	case OpExtr:
		return fmt.Sprintf("%s[%d:%d]", t.Args[0].str(depth+1), t.P1, t.P2)
	case OpTable:
		return fmt.Sprintf("tbl%d[%s]", t.P1, t.Args[0].str(depth+1))
	case OpNot:
		return "!" + t.Args[0].str(depth+1)
	case OpNeg:
		return "-" + t.Args[0].str(depth+1)
	}
	name := opNames[t.Op]
	parts := make([]string, len(t.Args))
	for i, a := range t.Args {
		parts[i] = a.str(depth + 1)
	}
	return "(" + name + " " + strings.Join(parts, " ") + ")"
}
