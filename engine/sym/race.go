package sym

import (
	"fmt"
	"strings"

	"golang.org/x/tools/go/ssa"
)

// Happens-before data-race analysis over the interpreted goroutines (enabled by the harness call
// vRaceDetect()). Every goroutine carries a vector clock; `go`, channel send/receive/close (including the
// capacity rule of buffered channels and the rendez-vous rule of unbuffered ones) and WaitGroup Done/Wait are the
// synchronisation edges of the Go memory model (gofasta uses no mutexes or atomics). Every load and store of a
// memory cell, element-wise copy/append, and every map operation made by code of the module under test is
// checked against the cell's last write and its reads since: two accesses by different goroutines, at least
// one a write, neither ordered before the other, are a data race -- on THIS path, whatever the interleaving,
// because the verdict depends only on the synchronisation edges, not on the order the scheduler happened to
// pick. Accesses made inside packages whose own synchronisation is not modelled (sync, runtime, fmt, os, reflect,
// time, regexp, cobra/pflag ...) are not tracked; modelled library functions count as reads of the slices they are
// given; package initialisation is ordered before everything.

type vclock []int32

func (v vclock) at(i int) int32 {
	if i < len(v) {
		return v[i]
	}
	return 0
}

func vcCopy(v vclock) vclock { return append(vclock(nil), v...) }

func vcJoin(a, b vclock) vclock {
	if len(b) > len(a) {
		a = append(a, make(vclock, len(b)-len(a))...)
	}
	for i, x := range b {
		if x > a[i] {
			a[i] = x
		}
	}
	return a
}

type raceAcc struct {
	gid   int
	clk   int32
	where string
}

type raceCell struct {
	w    raceAcc
	hasW bool
	rs   []raceAcc
}

type raceState struct {
	cells     map[interface{}]*raceCell
	wg        map[*Value]vclock
	modPrefix string
	reported  map[string]bool
	pkgTracked map[string]bool
}

func (ip *Interp) raceEnable(entry *ssa.Function) {
	path := ""
	if entry != nil && entry.Pkg != nil {
		path = entry.Pkg.Pkg.Path()
	}
	for _, cut := range []string{"/pkg/", "/cmd"} {
		if i := strings.Index(path, cut); i >= 0 {
			path = path[:i]
			break
		}
	}
	ip.race = &raceState{cells: map[interface{}]*raceCell{}, wg: map[*Value]vclock{}, modPrefix: path, reported: map[string]bool{}, pkgTracked: map[string]bool{}}
}

func (ip *Interp) curG() *gor {
	if ip.sch == nil {
		return nil
	}
	return ip.sch.cur
}

func (g *gor) tick() {
	for len(g.vc) <= g.id {
		g.vc = append(g.vc, 0)
	}
	g.vc[g.id]++
}

// raceActive: tracking is on, more than one goroutine exists, and the current instruction does not belong to a
// package whose internal synchronisation (mutexes, atomics, per-P pools) the engine does not model.
func (ip *Interp) raceActive() bool {
	if ip.race == nil || ip.sch == nil || len(ip.sch.gs) < 2 || ip.initMode {
		return false
	}
	f := ip.curFn
	if f == nil {
		return false
	}
	for f.Parent() != nil {
		f = f.Parent()
	}
	if f.Pkg == nil {
		return false
	}
	path := f.Pkg.Pkg.Path()
	if strings.HasPrefix(path, ip.race.modPrefix) {
		return true
	}
	if v, ok := ip.race.pkgTracked[path]; ok {
		return v
	}
	tracked := true
	for _, p := range raceUntrackedPkgs {
		if path == p || strings.HasPrefix(path, p+"/") {
			tracked = false
		}
	}
	ip.race.pkgTracked[path] = tracked
	return tracked
}

var raceUntrackedPkgs = []string{"sync", "runtime", "internal", "fmt", "os", "io/fs", "syscall", "reflect", "time", "log", "regexp", "math/rand", "github.com/spf13"}

// raceIntrinsicArgs: a modelled library function reads the slices it is given (and the ones listed as writers
// fill or permute them).
func (ip *Interp) raceIntrinsicArgs(name string, args []Value) {
	if ip.race == nil || !ip.raceActive() {
		return
	}
	write := -1
	switch {
	case strings.HasSuffix(name, ").Read"):
		write = 1
	case strings.HasPrefix(name, "sort."):
		write = 0
	}
	for i, a := range args {
		switch x := a.(type) {
		case SliceV:
			ip.raceElems(x.Data, i == write)
		case IfaceV:
			if sl, ok := x.V.(SliceV); ok {
				ip.raceElems(sl.Data, i == write)
			}
		}
	}
}

func (ip *Interp) raceWhere() string {
	s := ""
	if ip.curFn != nil {
		s = ip.curFn.String()
	}
	if ip.curInstr != nil && ip.curInstr.Pos().IsValid() {
		pos := ip.pr.Fset.Position(ip.curInstr.Pos())
		f := pos.Filename
		if i := strings.LastIndex(f, "/"); i >= 0 {
			f = f[i+1:]
		}
		s += fmt.Sprintf(" (%s:%d)", f, pos.Line)
	}
	return s
}

func (ip *Interp) raceAccess(key interface{}, write bool, what string) {
	if !ip.raceActive() {
		return
	}
	g := ip.curG()
	if g == nil {
		return
	}
	if len(g.vc) <= g.id {
		g.tick()
	}
	r := ip.race
	c := r.cells[key]
	if c == nil {
		c = &raceCell{}
		r.cells[key] = c
	}
	me := raceAcc{gid: g.id, clk: g.vc[g.id], where: ip.raceWhere()}
	ordered := func(a raceAcc) bool { return a.gid == g.id || a.clk <= g.vc.at(a.gid) }
	if c.hasW && !ordered(c.w) {
		ip.raceReport(what, "write", c.w, write, me)
	}
	if write {
		for _, a := range c.rs {
			if !ordered(a) {
				ip.raceReport(what, "read", a, true, me)
			}
		}
		c.w, c.hasW, c.rs = me, true, c.rs[:0]
		return
	}
	for i, a := range c.rs {
		if a.gid == g.id {
			c.rs[i] = me
			return
		}
	}
	c.rs = append(c.rs, me)
}

func (ip *Interp) raceReport(what, prevKind string, prev raceAcc, curWrite bool, cur raceAcc) {
	ck := "read"
	if curWrite {
		ck = "write"
	}
	msg := fmt.Sprintf("data race on %s: %s by goroutine %d at %s is not ordered with the earlier %s by goroutine %d at %s", what, ck, cur.gid, cur.where, prevKind, prev.gid, prev.where)
	key := prev.where + "|" + cur.where
	if ip.race.reported[key] {
		return
	}
	ip.race.reported[key] = true
	ip.p.assertReach["no-data-race"]++
	ip.p.violation("no-data-race", "race", msg, ip.p.model)
}

func (ip *Interp) raceSlot(slot *Value, write bool) {
	if ip.race != nil && slot != nil {
		ip.raceAccess(slot, write, "a memory cell")
	}
}

func (ip *Interp) raceElems(data []Value, write bool) {
	if ip.race == nil || !ip.raceActive() {
		return
	}
	for i := range data {
		ip.raceAccess(&data[i], write, "a slice element")
	}
}

func (ip *Interp) raceMap(m *MapV, write bool) {
	if ip.race != nil && m != nil {
		ip.raceAccess(m, write, "a map")
	}
}

// ---- synchronisation edges ----

func (ip *Interp) raceSpawn(parent, child *gor) {
	if ip.race == nil {
		return
	}
	if len(parent.vc) <= parent.id {
		parent.tick()
	}
	child.vc = vcCopy(parent.vc)
	child.tick()
	parent.tick()
}

// raceRelease returns a copy of the goroutine's clock for the receiver of the synchronisation and advances it.
func (ip *Interp) raceRelease() vclock {
	if ip.race == nil {
		return nil
	}
	g := ip.curG()
	if g == nil {
		return nil
	}
	if len(g.vc) <= g.id {
		g.tick()
	}
	v := vcCopy(g.vc)
	g.tick()
	return v
}

func (ip *Interp) raceAcquire(v vclock) {
	if ip.race == nil || v == nil {
		return
	}
	g := ip.curG()
	if g == nil {
		return
	}
	g.vc = vcJoin(g.vc, v)
}
