package sym

import (
	"fmt"
	"os"
	"path/filepath"
	"runtime"
	"strings"

	"golang.org/x/tools/go/packages"
	"golang.org/x/tools/go/ssa"
	"golang.org/x/tools/go/ssa/ssautil"
)

// HarnessSet is the set of harness files for the packages under test.
type HarnessSet struct {
	// PkgRel -> list of harness source files (absolute paths on disk)
	Files map[string][]string
}

// Overlay builds the go/packages overlay: every harness file appears as
// <repo>/<pkgRel>/zz_verif_<base>, plus the generated API file per package.
func BuildOverlay(repo string, hs *HarnessSet, pkgNames map[string]string) (map[string][]byte, error) {
	ov := map[string][]byte{}
	for rel, files := range hs.Files {
		name := pkgNames[rel]
		if name == "" {
			return nil, fmt.Errorf("unknown package name for %s", rel)
		}
		ov[filepath.Join(repo, rel, APIFileName)] = []byte("package " + name + "\n" + APISource)
		for _, f := range files {
			b, err := os.ReadFile(f)
			if err != nil {
				return nil, err
			}
			ov[filepath.Join(repo, rel, "zz_verif_"+filepath.Base(f))] = b
		}
	}
	return ov, nil
}

// PackageName reads the package clause of the first non-test Go file in dir.
func PackageName(dir string) (string, error) {
	ents, err := os.ReadDir(dir)
	if err != nil {
		return "", err
	}
	for _, e := range ents {
		n := e.Name()
		if !strings.HasSuffix(n, ".go") || strings.HasSuffix(n, "_test.go") {
			continue
		}
		b, err := os.ReadFile(filepath.Join(dir, n))
		if err != nil {
			return "", err
		}
		for _, line := range strings.Split(string(b), "\n") {
			line = strings.TrimSpace(line)
			if strings.HasPrefix(line, "package ") {
				return strings.Fields(line)[1], nil
			}
		}
	}
	return "", fmt.Errorf("no package clause found in %s", dir)
}

// Load loads the packages under test (with harness overlay) and builds SSA.
func Load(repo string, pkgRels []string, overlay map[string][]byte) (*Program, map[string]*ssa.Package, error) {
	cfg := &packages.Config{
		Mode:    packages.LoadAllSyntax,
		Dir:     repo,
		Overlay: overlay,
		Env:     append(os.Environ(), "GOFLAGS=-mod=mod", "GOPROXY=off", "GOSUMDB=off", "GOTOOLCHAIN=local", "GOWORK=off"),
	}
	var pats []string
	for _, r := range pkgRels {
		pats = append(pats, "./"+r)
	}
	pkgs, err := packages.Load(cfg, pats...)
	if err != nil {
		return nil, nil, err
	}
	var errs []string
	packages.Visit(pkgs, nil, func(p *packages.Package) {
		for _, e := range p.Errors {
			errs = append(errs, e.Error())
		}
	})
	if len(errs) > 0 {
		if len(errs) > 10 {
			errs = errs[:10]
		}
		return nil, nil, fmt.Errorf("package load errors:\n  %s", strings.Join(errs, "\n  "))
	}
	prog, spkgs := ssautil.AllPackages(pkgs, ssa.InstantiateGenerics)
	pr := &Program{Prog: prog, Fset: prog.Fset, RepoDir: repo, built: map[*ssa.Package]bool{}, initDone: map[*ssa.Package]int{}, initGlob: map[*ssa.Global]*Value{}, NumCPU: 2}
	res := map[string]*ssa.Package{}
	for i, p := range pkgs {
		if spkgs[i] == nil {
			return nil, nil, fmt.Errorf("no SSA package for %s", p.PkgPath)
		}
		for _, rel := range pkgRels {
			if strings.HasSuffix(p.PkgPath, "/"+rel) {
				res[rel] = spkgs[i]
			}
		}
	}
	for _, rel := range pkgRels {
		if res[rel] == nil {
			return nil, nil, fmt.Errorf("package %s not loaded", rel)
		}
	}
	// build everything up front (simplest and race free)
	prog.Build()
	for _, p := range prog.AllPackages() {
		pr.built[p] = true
	}
	_ = runtime.NumCPU
	return pr, res, nil
}
