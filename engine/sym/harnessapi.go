package sym

import (
	"fmt"
	"strconv"
	"strings"

	"golang.org/x/tools/go/ssa"
)

const APIFileName = "zz_verif_api.go"

// APISource is the native implementation of the harness API, generated into each package
// under test for the native replay build. Under symgo the bodies are never executed: the calls
// are intercepted by name.
const APISource = `
import (
	"encoding/json"
	"fmt"
	"io"
	"os"
	"os/signal"
	"syscall"
)

type vModelT struct {
	Model  map[string]uint64 ` + "`json:\"model\"`" + `
	Params map[string]int    ` + "`json:\"params\"`" + `
}

var vModel *vModelT
var vFailures []string
var vObs []string

type vStop struct{ why string }

func vLoad() {
	if vModel != nil {
		return
	}
	vModel = &vModelT{Model: map[string]uint64{}, Params: map[string]int{}}
	if p := os.Getenv("VERIF_MODEL"); p != "" {
		b, err := os.ReadFile(p)
		if err != nil {
			panic(err)
		}
		if err := json.Unmarshal(b, vModel); err != nil {
			panic(err)
		}
	}
}

func vByte(name string) byte { vLoad(); return byte(vModel.Model[name]) }
func vInt(name string) int   { vLoad(); return int(int64(vModel.Model[name])) }
func vBool(name string) bool { vLoad(); return vModel.Model[name]&1 == 1 }
func vParam(name string) int {
	vLoad()
	v, ok := vModel.Params[name]
	if !ok {
		panic("verif: missing parameter " + name)
	}
	return v
}
func vAssume(c bool) {
	if !c {
		panic(vStop{"VERIF-ASSUME-FAIL"})
	}
}
func vAssert(id string, c bool) {
	if !c {
		vFailures = append(vFailures, id)
		fmt.Println("VERIF-ASSERT-FAIL " + id)
	}
}
func vConcretize(x int) int { return x }
func vNuc(name string, set string) byte {
	b := vByte(name)
	ok := false
	for i := 0; i < len(set); i++ {
		if set[i] == b {
			ok = true
		}
	}
	vAssume(ok)
	return b
}
func vRange(name string, lo, hi int) int {
	x := vInt(name)
	vAssume(lo <= x && x <= hi)
	return x
}
func vChoice(name string, n int) int { return vRange(name, 0, n-1) }
func vAnd(a, b bool) bool            { return a && b }
func vOr(a, b bool) bool             { return a || b }
func vNot(a bool) bool               { return !a }
func vImplies(a, b bool) bool        { return !a || b }
func vIte(c bool, a, b int) int {
	if c {
		return a
	}
	return b
}
func vIteB(c bool, a, b byte) byte {
	if c {
		return a
	}
	return b
}
func vCut()               { panic(vStop{"VERIF-CUT"}) }
func vMapOrder(on bool)   {}
func vSchedExplore(maxDeviations int) {}
func vNumCPU(n int)       {}
func vAllowCrash(on bool) {}

// vRaceDetect: from now on the engine checks every memory access of the code under test for happens-before
// data races between goroutines (natively a no-op; counterexamples are replayed with the race detector).
func vRaceDetect() {}

// vFile creates an input file (or reserves an output path) and returns the path to pass on the command
// line; vReadFile returns a file's content. Under symgo the files live in the engine's in-memory file system.
var vTmpDir string

func vFile(name string, data []byte) string {
	if vTmpDir == "" {
		d, err := os.MkdirTemp("", "verif-files-")
		if err != nil {
			panic(err)
		}
		vTmpDir = d
	}
	p := vTmpDir + "/" + name
	if data != nil {
		if err := os.WriteFile(p, data, 0o644); err != nil {
			panic(err)
		}
	} else {
		os.Remove(p)
	}
	return p
}
// vDir returns a directory in which the code under test may create files.
func vDir() string {
	vFile(".keep", []byte{})
	return vTmpDir
}
func vReadFile(path string) string {
	b, err := os.ReadFile(path)
	if err != nil {
		return ""
	}
	return string(b)
}
func vSetStdin(data []byte) {
	p := vFile("stdin.dat", data)
	f, err := os.Open(p)
	if err != nil {
		panic(err)
	}
	os.Stdin = f
}

// vStdoutCapture / vStdout: what the code under test writes to os.Stdout between the two calls.
var vStdoutR, vStdoutOld *os.File

func vStdoutCapture() {
	r, w, err := os.Pipe()
	if err != nil {
		panic(err)
	}
	vStdoutOld, vStdoutR = os.Stdout, r
	os.Stdout = w
}
// vStdoutToFile: like vStdoutCapture, but os.Stdout becomes a regular file, so that vFileSizeLimit applies
// to it; vStdout returns what it holds.
var vStdoutFile *os.File

func vStdoutToFile() {
	f, err := os.CreateTemp("", "verif-stdout-")
	if err != nil {
		panic(err)
	}
	vStdoutOld, vStdoutFile = os.Stdout, f
	os.Stdout = f
}

// vFileSizeLimit(n): from now on every regular file (the files the code under test creates, and os.Stdout
// after vStdoutToFile) accepts at most n bytes; the write that would exceed n stores what fits and fails
// (natively: RLIMIT_FSIZE, EFBIG). vFileSizeLimit(-1) lifts the limit.
var vOldFsize *syscall.Rlimit

func vFileSizeLimit(n int) {
	if n < 0 {
		if vOldFsize != nil {
			syscall.Setrlimit(syscall.RLIMIT_FSIZE, vOldFsize)
			vOldFsize = nil
		}
		return
	}
	signal.Ignore(syscall.SIGXFSZ)
	var cur syscall.Rlimit
	if err := syscall.Getrlimit(syscall.RLIMIT_FSIZE, &cur); err != nil {
		panic(err)
	}
	if vOldFsize == nil {
		c := cur
		vOldFsize = &c
	}
	cur.Cur = uint64(n)
	if err := syscall.Setrlimit(syscall.RLIMIT_FSIZE, &cur); err != nil {
		panic(err)
	}
}

func vStdout() string {
	if vStdoutFile != nil {
		name := vStdoutFile.Name()
		vStdoutFile.Close()
		b, _ := os.ReadFile(name)
		os.Remove(name)
		os.Stdout = vStdoutOld
		vStdoutFile = nil
		return string(b)
	}
	if vStdoutR == nil {
		return ""
	}
	os.Stdout.Close()
	b, _ := io.ReadAll(vStdoutR)
	os.Stdout = vStdoutOld
	vStdoutR = nil
	return string(b)
}
func vNote(s string)      {}
func vObserve(tag string, v ...interface{}) {
	s := tag + "="
	for i, x := range v {
		if i > 0 {
			s += " "
		}
		s += fmt.Sprintf("%v", x)
	}
	vObs = append(vObs, s)
}
func vName(prefix string, idx ...int) string {
	s := prefix
	for _, i := range idx {
		s += "_" + fmt.Sprint(i)
	}
	return s
}

// vRun runs a harness natively and reports in a machine-readable way.
func vRun(h func()) (failed []string, stopped string, panicked string) {
	vFailures = nil
	func() {
		defer vFileSizeLimit(-1)
		defer func() {
			if r := recover(); r != nil {
				if s, ok := r.(vStop); ok {
					stopped = s.why
					return
				}
				panicked = fmt.Sprint(r)
			}
		}()
		h()
	}()
	return vFailures, stopped, panicked
}
`

func (ip *Interp) harnessAPI(fn *ssa.Function) intrinsic {
	if fn.Pkg == nil || len(fn.Name()) < 2 || fn.Name()[0] != 'v' {
		return nil
	}
	h, ok := apiFuncs[fn.Name()]
	if !ok {
		return nil
	}
	pos := ip.pr.Fset.Position(fn.Pos())
	if !strings.HasSuffix(pos.Filename, APIFileName) {
		return nil
	}
	return h
}

var apiFuncs map[string]intrinsic

func (ip *Interp) nameArg(v Value) string {
	s := v.(*StrV)
	if !s.IsConc() {
		panic(engineError{"harness variable name must be concrete"})
	}
	return s.S
}

func init() {
	apiFuncs = map[string]intrinsic{
		"vByte": func(ip *Interp, fn *ssa.Function, a []Value) Value {
			return ip.p.NewVar(ip.nameArg(a[0]), 8, 0)
		},
		"vInt": func(ip *Interp, fn *ssa.Function, a []Value) Value {
			return ip.p.NewVar(ip.nameArg(a[0]), 64, 0)
		},
		"vBool": func(ip *Interp, fn *ssa.Function, a []Value) Value {
			return ip.p.NewVar(ip.nameArg(a[0]), 0, 0)
		},
		"vParam": func(ip *Interp, fn *ssa.Function, a []Value) Value {
			n := ip.nameArg(a[0])
			v, ok := ip.p.params[n]
			if !ok {
				panic(engineError{"missing harness parameter " + n})
			}
			return ip.p.T.Const(64, uint64(int64(v)))
		},
		"vAssume": func(ip *Interp, fn *ssa.Function, a []Value) Value {
			ip.p.Assume(a[0].(*Term))
			return nil
		},
		"vAssert": func(ip *Interp, fn *ssa.Function, a []Value) Value {
			ip.p.Assert(ip.nameArg(a[0]), a[1].(*Term), "")
			return nil
		},
		"vConcretize": func(ip *Interp, fn *ssa.Function, a []Value) Value {
			t := a[0].(*Term)
			return ip.p.T.Const(t.W, ip.p.Concretize(t))
		},
		"vNuc": func(ip *Interp, fn *ssa.Function, a []Value) Value {
			T := ip.p.T
			name := ip.nameArg(a[0])
			set := ip.nameArg(a[1])
			if len(set) == 0 {
				panic(engineError{"vNuc with empty set"})
			}
			v := ip.p.NewVar(name, 8, uint64(set[0]))
			c := T.False
			for i := 0; i < len(set); i++ {
				c = T.Or(c, T.Cmp(OpEq, v, T.Const(8, uint64(set[i]))))
			}
			ip.p.assumeOnce("vNuc:"+name+":"+set, c)
			return v
		},
		"vRange": func(ip *Interp, fn *ssa.Function, a []Value) Value {
			T := ip.p.T
			name := ip.nameArg(a[0])
			lo, hi := ip.concInt(a[1]), ip.concInt(a[2])
			v := ip.p.NewVar(name, 64, uint64(lo))
			c := T.And(T.Cmp(OpSle, T.Const(64, uint64(lo)), v), T.Cmp(OpSle, v, T.Const(64, uint64(hi))))
			ip.p.assumeOnce(fmt.Sprintf("vRange:%s:%d:%d", name, lo, hi), c)
			return v
		},
		"vChoice": func(ip *Interp, fn *ssa.Function, a []Value) Value {
			T := ip.p.T
			name := ip.nameArg(a[0])
			n := ip.concInt(a[1])
			v := ip.p.NewVar(name, 64, 0)
			c := T.Cmp(OpUlt, v, T.Const(64, uint64(n)))
			ip.p.assumeOnce(fmt.Sprintf("vChoice:%s:%d", name, n), c)
			return T.Const(64, ip.p.Concretize(v))
		},
		"vAnd": func(ip *Interp, fn *ssa.Function, a []Value) Value {
			return ip.p.T.And(a[0].(*Term), a[1].(*Term))
		},
		"vOr": func(ip *Interp, fn *ssa.Function, a []Value) Value {
			return ip.p.T.Or(a[0].(*Term), a[1].(*Term))
		},
		"vNot": func(ip *Interp, fn *ssa.Function, a []Value) Value {
			return ip.p.T.Not(a[0].(*Term))
		},
		"vImplies": func(ip *Interp, fn *ssa.Function, a []Value) Value {
			return ip.p.T.Or(ip.p.T.Not(a[0].(*Term)), a[1].(*Term))
		},
		"vIte": func(ip *Interp, fn *ssa.Function, a []Value) Value {
			return ip.p.T.Ite(a[0].(*Term), a[1].(*Term), a[2].(*Term))
		},
		"vIteB": func(ip *Interp, fn *ssa.Function, a []Value) Value {
			return ip.p.T.Ite(a[0].(*Term), a[1].(*Term), a[2].(*Term))
		},
		"vCut": func(ip *Interp, fn *ssa.Function, a []Value) Value {
			panic(pathEnd{"cut", "harness cut"})
		},
		"vMapOrder": func(ip *Interp, fn *ssa.Function, a []Value) Value {
			ip.mapPerm = a[0].(*Term).C == 1
			return nil
		},
		"vSchedExplore": func(ip *Interp, fn *ssa.Function, a []Value) Value {
			n := int(ip.concInt(a[0]))
			ip.scheduler().explore = n > 0
			ip.scheduler().maxDev = n
			return nil
		},
		"vRaceDetect": func(ip *Interp, fn *ssa.Function, a []Value) Value {
			if ip.p.params["RACE"] == 1 {
				ip.raceEnable(fn)
			}
			return nil
		},
		"vAllowCrash": func(ip *Interp, fn *ssa.Function, a []Value) Value {
			ip.allowCrash = a[0].(*Term).C == 1
			return nil
		},
		"vFile": func(ip *Interp, fn *ssa.Function, a []Value) Value {
			name := "/vfs/" + ip.nameArg(a[0])
			if ip.vfs == nil {
				ip.vfs = map[string]*HostObj{}
			}
			if sl, ok := a[1].(SliceV); ok && sl.Data != nil {
				d := make([]Value, len(sl.Data))
				copy(d, sl.Data)
				ip.vfs[name] = &HostObj{Kind: "file", Data: d}
			} else {
				delete(ip.vfs, name)
			}
			return mkStr(name)
		},
		"vDir": func(ip *Interp, fn *ssa.Function, a []Value) Value {
			return mkStr("/vfs")
		},
		"vReadFile": func(ip *Interp, fn *ssa.Function, a []Value) Value {
			f, ok := ip.vfs[ip.nameArg(a[0])]
			if !ok {
				return mkStr("")
			}
			ts := make([]*Term, len(f.Data))
			for i, v := range f.Data {
				ts[i] = v.(*Term)
			}
			return strFromTerms(ts)
		},
		"vSetStdin": func(ip *Interp, fn *ssa.Function, a []Value) Value {
			sl := a[0].(SliceV)
			d := make([]Value, len(sl.Data))
			copy(d, sl.Data)
			ip.stdin = d
			return nil
		},
		"vStdoutCapture": func(ip *Interp, fn *ssa.Function, a []Value) Value {
			ip.stdout = nil
			ip.stdoutIsFile = false
			return nil
		},
		"vStdoutToFile": func(ip *Interp, fn *ssa.Function, a []Value) Value {
			ip.stdout = nil
			ip.stdoutIsFile = true
			return nil
		},
		"vFileSizeLimit": func(ip *Interp, fn *ssa.Function, a []Value) Value {
			ip.fsizeLimit = int(ip.concInt(a[0]))
			ip.fsizeLimitOn = ip.fsizeLimit >= 0
			return nil
		},
		"vStdout": func(ip *Interp, fn *ssa.Function, a []Value) Value {
			r := strFromTerms(ip.stdout)
			ip.stdout = nil
			ip.stdoutIsFile = false
			return r
		},
		"vNumCPU": func(ip *Interp, fn *ssa.Function, a []Value) Value {
			ip.numCPU = int(ip.concInt(a[0]))
			return nil
		},
		"vNote": func(ip *Interp, fn *ssa.Function, a []Value) Value {
			ip.p.note(ip.nameArg(a[0]))
			return nil
		},
		"vName": func(ip *Interp, fn *ssa.Function, a []Value) Value {
			s := ip.nameArg(a[0])
			for _, v := range a[1].(SliceV).Data {
				s += "_" + fmt.Sprint(ip.concInt(v))
			}
			return mkStr(s)
		},
		"vObserve": func(ip *Interp, fn *ssa.Function, a []Value) Value {
			tag := ip.nameArg(a[0])
			var parts []string
			for _, v := range a[1].(SliceV).Data {
				parts = append(parts, ip.obsString(v))
			}
			ip.p.observations = append(ip.p.observations, tag+"="+strings.Join(parts, " "))
			return nil
		},
	}
}

// assumeOnce adds an input-domain assumption and records it for the evidence file.
func (p *PathCtx) assumeOnce(key string, c *Term) {
	if p.seenAssume == nil {
		p.seenAssume = map[string]bool{}
	}
	if p.seenAssume[key] {
		return
	}
	p.seenAssume[key] = true
	p.Assume(c)
}

// obsString renders an observed value the way the native fmt.Sprintf("%v") does.
func (ip *Interp) obsString(v Value) string {
	signed := true
	if iv, ok := v.(IfaceV); ok {
		if iv.T == nil {
			return "<nil>"
		}
		signed = isSigned(iv.T)
		v = iv.V
	}
	switch x := v.(type) {
	case *Term:
		c := x
		if !c.IsConst() {
			if !ip.p.concrete {
				return "<" + x.String() + ">"
			}
			c = ip.p.T.Const(x.W, ip.p.evalU(x))
		}
		if c.W == 0 {
			return strconv.FormatBool(c.C == 1)
		}
		if signed {
			return strconv.FormatInt(signExt(c.C, c.W), 10)
		}
		return strconv.FormatUint(c.C, 10)
	case float64:
		return fmt.Sprintf("%v", x)
	case *StrV:
		if x.IsConc() {
			return x.S
		}
		if ip.p.concrete {
			b := make([]byte, len(x.Sym))
			for i, t := range x.Sym {
				b[i] = byte(ip.p.evalU(t))
			}
			return string(b)
		}
		return describe(x)
	}
	return describe(v)
}
