package sym

// Value-set pruning of branch sides.
//
// For every narrow input variable (width <= 8, or Bool) the path keeps the set of values that the
// single-variable conjuncts of the path condition still allow. Before a branch-feasibility question goes to
// the solver, a condition whose support is a few narrow variables is evaluated over the Cartesian product of
// those sets (at most domMaxCombos assignments): if no assignment takes a side, that side is infeasible and
// no solver call is made. The sets over-approximate the path condition (multi-variable conjuncts are
// ignored), so the pruning only ever removes sides that are infeasible; a side that survives is still put to
// the solver. Obligations (vAssert) are never decided this way.

const domMaxVars = 4
const domMaxCombos = 256

type valSet [4]uint64

type domEntry struct {
	ver           int
	ct, cf, known bool
}

func (s *valSet) has(v uint64) bool { return s[v>>6]&(1<<(v&63)) != 0 }
func (s *valSet) del(v uint64)      { s[v>>6] &^= 1 << (v & 63) }
func (s *valSet) count() int {
	n := 0
	for _, w := range s {
		for ; w != 0; w &= w - 1 {
			n++
		}
	}
	return n
}

func fullSet(w int) *valSet {
	var s valSet
	n := 2
	if w > 0 {
		n = 1 << uint(w)
	}
	for v := 0; v < n; v++ {
		s[v>>6] |= 1 << (uint(v) & 63)
	}
	return &s
}

// Support returns the narrow variables t depends on (at most domMaxVars), or ok=false if t depends on a
// wide variable or on more variables than that.
func (c *TermCtx) Support(t *Term) ([]*Term, bool) {
	if c.supp == nil {
		c.supp = map[*Term][]*Term{}
		c.suppBad = map[*Term]bool{}
	}
	if t.Op == OpConst {
		return nil, true
	}
	if c.suppBad[t] {
		return nil, false
	}
	if s, ok := c.supp[t]; ok {
		return s, true
	}
	var out []*Term
	ok := true
	if t.Op == OpVar {
		if t.W > 8 {
			ok = false
		} else {
			out = []*Term{t}
		}
	} else {
		for _, a := range t.Args {
			s, aok := c.Support(a)
			if !aok {
				ok = false
				break
			}
			for _, v := range s {
				dup := false
				for _, o := range out {
					if o == v {
						dup = true
						break
					}
				}
				if !dup {
					out = append(out, v)
				}
			}
			if len(out) > domMaxVars {
				ok = false
				break
			}
		}
	}
	if !ok {
		c.suppBad[t] = true
		return nil, false
	}
	c.supp[t] = out
	return out, true
}

func (p *PathCtx) domOf(v *Term) *valSet {
	if p.dom == nil {
		p.dom = map[*Term]*valSet{}
		p.domVer = map[*Term]int{}
		p.domCache = map[*Term]domEntry{}
	}
	d, ok := p.dom[v]
	if !ok {
		d = fullSet(v.W)
		p.dom[v] = d
	}
	return d
}

// domRestrict narrows the value set of the single variable c depends on (if it is such a condition).
func (p *PathCtx) domRestrict(c *Term, val bool) {
	s, ok := p.T.Support(c)
	if !ok || len(s) != 1 {
		return
	}
	v := s[0]
	d := p.domOf(v)
	n := 2
	if v.W > 0 {
		n = 1 << uint(v.W)
	}
	want := b2u(val)
	one := []uint64{0}
	for x := 0; x < n; x++ {
		if !d.has(uint64(x)) {
			continue
		}
		one[0] = uint64(x)
		if p.T.evalWith(c, s, one) != want {
			d.del(uint64(x))
			p.domVer[v]++
		}
	}
}

// domSides reports which truth values cond can take over the current value sets; known=false when the
// condition is outside the reach of the pruning (wide or many variables, too many combinations).
func (p *PathCtx) domSides(cond *Term) (canTrue, canFalse, known bool) {
	s, ok := p.T.Support(cond)
	if !ok || len(s) == 0 {
		return true, true, false
	}
	ver := 0
	for _, v := range s {
		p.domOf(v)
		ver += p.domVer[v]
	}
	if e, ok := p.domCache[cond]; ok && e.ver == ver {
		return e.ct, e.cf, e.known
	}
	defer func() { p.domCache[cond] = domEntry{ver, canTrue, canFalse, known} }()
	combos := 1
	doms := make([][]uint64, len(s))
	for i, v := range s {
		d := p.domOf(v)
		n := 2
		if v.W > 0 {
			n = 1 << uint(v.W)
		}
		for x := 0; x < n; x++ {
			if d.has(uint64(x)) {
				doms[i] = append(doms[i], uint64(x))
			}
		}
		combos *= len(doms[i])
		if combos > domMaxCombos {
			return true, true, false
		}
	}
	if combos == 0 {
		return false, false, true
	}
	idx := make([]int, len(s))
	cur := make([]uint64, len(s))
	for {
		for i := range s {
			cur[i] = doms[i][idx[i]]
		}
		if p.T.evalWith(cond, s, cur) == 1 {
			canTrue = true
		} else {
			canFalse = true
		}
		if canTrue && canFalse {
			return true, true, true
		}
		k := 0
		for k < len(s) {
			idx[k]++
			if idx[k] < len(doms[k]) {
				break
			}
			idx[k] = 0
			k++
		}
		if k == len(s) {
			break
		}
	}
	return canTrue, canFalse, true
}

// evalScratch evaluates t with the variables pre-seeded in the scratch memo (indexed by term id, stamped
// with an epoch so that no clearing is needed between evaluations).
func (c *TermCtx) evalScratch(t *Term) uint64 {
	if t.Op == OpConst {
		return t.C
	}
	if t.id < len(c.scrEpoch) && c.scrEpoch[t.id] == c.epoch {
		return c.scrVal[t.id]
	}
	var r uint64
	switch t.Op {
	case OpVar:
		r = 0
	case OpIte:
		if c.evalScratch(t.Args[0]) == 1 {
			r = c.evalScratch(t.Args[1])
		} else {
			r = c.evalScratch(t.Args[2])
		}
	default:
		var av [3]uint64
		for i, a := range t.Args {
			av[i] = c.evalScratch(a)
		}
		r = c.applyOp(t, av[:])
	}
	c.scrSet(t, r)
	return r
}

func (c *TermCtx) scrSet(t *Term, v uint64) {
	if t.id >= len(c.scrEpoch) {
		n := 2 * (t.id + 64)
		ne := make([]uint32, n)
		copy(ne, c.scrEpoch)
		c.scrEpoch = ne
		nv := make([]uint64, n)
		copy(nv, c.scrVal)
		c.scrVal = nv
	}
	c.scrEpoch[t.id] = c.epoch
	c.scrVal[t.id] = v
}

// evalWith evaluates t under the assignment vars[i] = vals[i] (all other variables 0).
func (c *TermCtx) evalWith(t *Term, vars []*Term, vals []uint64) uint64 {
	c.epoch++
	if c.epoch == 0 {
		for i := range c.scrEpoch {
			c.scrEpoch[i] = 0
		}
		c.epoch = 1
	}
	for i, v := range vars {
		c.scrSet(v, vals[i]&mask8(v.W))
	}
	return c.evalScratch(t)
}

func mask8(w int) uint64 {
	if w == 0 {
		return 1
	}
	return mask(w)
}
