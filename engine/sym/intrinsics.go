package sym

import (
	"fmt"
	"regexp"
	"go/types"
	"math"
	"strconv"
	"strings"
	"unicode"
	"unicode/utf8"

	"golang.org/x/tools/go/ssa"
)

type intrinsic func(ip *Interp, fn *ssa.Function, args []Value) Value

var intrinsics map[string]intrinsic

func init() {
	intrinsics = map[string]intrinsic{
		"fmt.Errorf":   inErrorf,
		"fmt.Fprintf":  inFprint,
		"fmt.Fprintln": inFprint,
		"fmt.Fprint":   inFprint,
		"fmt.Println":  inPrintNop,
		"fmt.Printf":   inPrintNop,
		"fmt.Print":    inPrintNop,
		"fmt.Sprintf":  inSprintf,
		"fmt.Sprint":   inSprintf,

		"(*os.File).WriteString": func(ip *Interp, fn *ssa.Function, a []Value) Value {
			h, _ := a[0].(*HostObj)
			return ip.fileWrite(h, ip.strBytes(a[1].(*StrV)))
		},
		"(*os.File).Write": func(ip *Interp, fn *ssa.Function, a []Value) Value {
			h, _ := a[0].(*HostObj)
			src := a[1].(SliceV).Data
			bs := make([]*Term, len(src))
			for i, b := range src {
				bs[i] = b.(*Term)
			}
			return ip.fileWrite(h, bs)
		},
		"(*os.File).Close": func(ip *Interp, fn *ssa.Function, a []Value) Value { return IfaceV{} },
		"os.Open": func(ip *Interp, fn *ssa.Function, a []Value) Value {
			name := ip.concStr(a[0].(*StrV))
			f, ok := ip.vfs[name]
			if !ok {
				return TupleV{Pointer{}, ip.mkError("open " + name + ": no such file or directory")}
			}
			// a fresh handle on the same content
			return TupleV{&HostObj{Kind: "file", Data: f.Data, Aux: f}, IfaceV{}}
		},
		"os.Create": func(ip *Interp, fn *ssa.Function, a []Value) Value {
			name := ip.concStr(a[0].(*StrV))
			if ip.vfs == nil {
				ip.vfs = map[string]*HostObj{}
			}
			if name == "/dev/full" {
				// the device that accepts no byte: every write fails with ENOSPC
				return TupleV{&HostObj{Kind: "devfull"}, IfaceV{}}
			}
			f := &HostObj{Kind: "file"}
			ip.vfs[name] = f
			return TupleV{f, IfaceV{}}
		},
		"os.MkdirAll": func(ip *Interp, fn *ssa.Function, a []Value) Value { return IfaceV{} },
		"(*os.File).Read": func(ip *Interp, fn *ssa.Function, a []Value) Value {
			h, ok := a[0].(*HostObj)
			if !ok {
				unsupported("read from a nil *os.File")
			}
			if h.Kind == "os.Stdin" {
				if h.Data == nil {
					h = &HostObj{Kind: "file", Data: ip.stdin}
				}
			}
			return inReaderRead(ip, fn, []Value{h, a[1]})
		},
		"(*os.File).Seek": func(ip *Interp, fn *ssa.Function, a []Value) Value {
			h := a[0].(*HostObj)
			off := int(ip.concInt(a[1]))
			switch ip.concInt(a[2]) {
			case 0:
				h.Pos = off
			case 1:
				h.Pos += off
			case 2:
				h.Pos = len(h.Data) + off
			}
			return TupleV{ip.p.T.Const(64, uint64(h.Pos)), IfaceV{}}
		},

		"strconv.Itoa":        inItoa,
		"strconv.Atoi":        inAtoi,
		"strconv.FormatFloat": inFormatFloat,
		"strconv.ParseFloat":  inParseFloat,
		"strconv.FormatInt": func(ip *Interp, fn *ssa.Function, a []Value) Value {
			return mkStr(strconv.FormatInt(ip.concInt(a[0]), int(ip.concInt(a[1]))))
		},
		"strconv.Quote": func(ip *Interp, fn *ssa.Function, a []Value) Value {
			return mkStr(strconv.Quote(ip.concStr(a[0].(*StrV))))
		},

		"strings.Join":       inJoin,
		"strings.ToUpper":    inToUpper,
		"strings.ToLower":    inToLower,
		"strings.Fields":     inFields,
		"strings.Split":      inSplit,
		"strings.TrimSpace":  inTrimSpace,
		"strings.HasPrefix":  inHasPrefix,
		"strings.HasSuffix":  inHasSuffix,
		"strings.TrimPrefix": inTrimPrefix,
		"strings.TrimLeft":   inTrimLeft,
		"strings.TrimRight":  inTrimRight,
		"strings.Contains":   inContains,
		"strings.ReplaceAll": inReplaceAll,
		"strings.Replace": func(ip *Interp, fn *ssa.Function, a []Value) Value {
			return replaceN(ip, a[0].(*StrV), a[1].(*StrV), a[2].(*StrV), int(ip.concInt(a[3])))
		},
		"strings.NewReader": func(ip *Interp, fn *ssa.Function, a []Value) Value {
			bs := ip.strBytes(a[0].(*StrV))
			d := make([]Value, len(bs))
			for i, b := range bs {
				d[i] = b
			}
			return &HostObj{Kind: "reader", Data: d}
		},
		"bytes.NewReader": func(ip *Interp, fn *ssa.Function, a []Value) Value {
			src := a[0].(SliceV).Data
			d := make([]Value, len(src))
			copy(d, src)
			return &HostObj{Kind: "reader", Data: d}
		},
		"(*bytes.Reader).Read":   inReaderRead,
		"(*bytes.Reader).Seek": func(ip *Interp, fn *ssa.Function, a []Value) Value {
			r := a[0].(*HostObj)
			off := int(ip.concInt(a[1]))
			switch ip.concInt(a[2]) {
			case 0:
				r.Pos = off
			case 1:
				r.Pos += off
			case 2:
				r.Pos = len(r.Data) + off
			}
			if r.Pos < 0 {
				r.Pos = 0
				return TupleV{ip.p.T.Const(64, 0), ip.mkError("bytes.Reader.Seek: negative position")}
			}
			return TupleV{ip.p.T.Const(64, uint64(r.Pos)), IfaceV{}}
		},
		"(*bytes.Reader).Len": func(ip *Interp, fn *ssa.Function, a []Value) Value {
			r := a[0].(*HostObj)
			n := len(r.Data) - r.Pos
			if n < 0 {
				n = 0
			}
			return ip.p.T.Const(64, uint64(n))
		},
		"(*strings.Reader).Read": inReaderRead,

		"sort.SliceStable": inSortSlice,
		"sort.Slice":       inSortSlice,
		"sort.Ints":        inSortInts,
		"sort.Strings":     inSortStrings,

		"math.Log":   func(ip *Interp, fn *ssa.Function, a []Value) Value { return math.Log(a[0].(float64)) },
		"math.Round":       func(ip *Interp, fn *ssa.Function, a []Value) Value { return math.Round(a[0].(float64)) },
		"math.RoundToEven": func(ip *Interp, fn *ssa.Function, a []Value) Value { return math.RoundToEven(a[0].(float64)) },
		"math.Trunc":       func(ip *Interp, fn *ssa.Function, a []Value) Value { return math.Trunc(a[0].(float64)) },
		"math.Sqrt":        func(ip *Interp, fn *ssa.Function, a []Value) Value { return math.Sqrt(a[0].(float64)) },
		"math.Exp":         func(ip *Interp, fn *ssa.Function, a []Value) Value { return math.Exp(a[0].(float64)) },
		"math.Log2":        func(ip *Interp, fn *ssa.Function, a []Value) Value { return math.Log2(a[0].(float64)) },
		"math.Log10":       func(ip *Interp, fn *ssa.Function, a []Value) Value { return math.Log10(a[0].(float64)) },
		"math.Log1p":       func(ip *Interp, fn *ssa.Function, a []Value) Value { return math.Log1p(a[0].(float64)) },
		"math.Pow": func(ip *Interp, fn *ssa.Function, a []Value) Value {
			return math.Pow(a[0].(float64), a[1].(float64))
		},
		"math.Mod": func(ip *Interp, fn *ssa.Function, a []Value) Value {
			return math.Mod(a[0].(float64), a[1].(float64))
		},
		"math.Max": func(ip *Interp, fn *ssa.Function, a []Value) Value {
			return math.Max(a[0].(float64), a[1].(float64))
		},
		"math.Min": func(ip *Interp, fn *ssa.Function, a []Value) Value {
			return math.Min(a[0].(float64), a[1].(float64))
		},
		"math.Float64bits": func(ip *Interp, fn *ssa.Function, a []Value) Value {
			return ip.p.T.Const(64, math.Float64bits(a[0].(float64)))
		},
		"math.Float64frombits": func(ip *Interp, fn *ssa.Function, a []Value) Value {
			return math.Float64frombits(uint64(ip.concInt(a[0])))
		},
		"math.Floor": func(ip *Interp, fn *ssa.Function, a []Value) Value { return math.Floor(a[0].(float64)) },
		"math.Ceil":  func(ip *Interp, fn *ssa.Function, a []Value) Value { return math.Ceil(a[0].(float64)) },
		"math.Abs":   func(ip *Interp, fn *ssa.Function, a []Value) Value { return math.Abs(a[0].(float64)) },
		"math.IsNaN": func(ip *Interp, fn *ssa.Function, a []Value) Value { return ip.p.T.Bool(math.IsNaN(a[0].(float64))) },
		"math.IsInf": func(ip *Interp, fn *ssa.Function, a []Value) Value {
			return ip.p.T.Bool(math.IsInf(a[0].(float64), int(ip.concInt(a[1]))))
		},
		"math.Inf": func(ip *Interp, fn *ssa.Function, a []Value) Value { return math.Inf(int(ip.concInt(a[0]))) },
		"math.NaN": func(ip *Interp, fn *ssa.Function, a []Value) Value { return math.NaN() },

		"unicode.IsLetter": inIsLetter,
		"unicode.IsUpper":  inIsUpper,
		"unicode.IsDigit":  inIsDigit,
		"unicode/utf8.DecodeRune": inDecodeRune,

		"bufio.NewScanner":          inNewScanner,
		"(*bufio.Scanner).Buffer": func(ip *Interp, fn *ssa.Function, a []Value) Value {
			a[0].(*HostObj).N = int(ip.concInt(a[2])) // maximum token size
			return nil
		},
		"(*bufio.Scanner).Scan":     inScan,
		"(*bufio.Scanner).Text":     inScanText,
		"(*bufio.Scanner).Bytes":    inScanBytes,
		"(*bufio.Scanner).Err": func(ip *Interp, fn *ssa.Function, a []Value) Value {
			if e := a[0].(*HostObj).Err; e != nil {
				return e
			}
			return IfaceV{}
		},

		"encoding/csv.NewReader":     inCSVNewReader,
		"(*encoding/csv.Reader).Read": inCSVRead,

		"(*sync.WaitGroup).Add": func(ip *Interp, fn *ssa.Function, a []Value) Value {
			*ip.wgCounter(a[0]) += int(ip.concInt(a[1]))
			return nil
		},
		"(*sync.WaitGroup).Done": func(ip *Interp, fn *ssa.Function, a []Value) Value {
			c := ip.wgCounter(a[0])
			if ip.race != nil {
				slot := a[0].(Pointer).Slot
				ip.race.wg[slot] = vcJoin(ip.race.wg[slot], ip.raceRelease())
			}
			*c--
			if *c < 0 {
				ip.goPanic("sync: negative WaitGroup counter")
			}
			return nil
		},
		"(*sync.WaitGroup).Wait": func(ip *Interp, fn *ssa.Function, a []Value) Value {
			c := ip.wgCounter(a[0])
			ip.block(func() bool { return *c == 0 }, "WaitGroup.Wait")
			if ip.race != nil {
				ip.raceAcquire(ip.race.wg[a[0].(Pointer).Slot])
			}
			return nil
		},
		"(*sync.Mutex).Lock":     func(ip *Interp, fn *ssa.Function, a []Value) Value { return nil },
		"(*sync.Mutex).Unlock":   func(ip *Interp, fn *ssa.Function, a []Value) Value { return nil },

		"internal/bytealg.IndexByte":       inIndexByte,
		"internal/bytealg.IndexByteString": inIndexByte,
		"internal/bytealg.Count":           inCountByte,
		"internal/bytealg.CountString":     inCountByte,
		"internal/bytealg.Equal": func(ip *Interp, fn *ssa.Function, a []Value) Value {
			return ip.strEq(ip.anyToStr(a[0]), ip.anyToStr(a[1]))
		},
		"internal/bytealg.Compare": func(ip *Interp, fn *ssa.Function, a []Value) Value {
			x, y := ip.anyToStr(a[0]), ip.anyToStr(a[1])
			T := ip.p.T
			if ip.p.Branch(ip.strEq(x, y)) {
				return T.Const(64, 0)
			}
			if ip.p.Branch(ip.strLess(x, y)) {
				return T.Const(64, ^uint64(0))
			}
			return T.Const(64, 1)
		},
		"internal/bytealg.Index":       inIndexSub,
		"internal/bytealg.IndexString": inIndexSub,
		"internal/bytealg.MakeNoZero": func(ip *Interp, fn *ssa.Function, a []Value) Value {
			n := int(ip.concInt(a[0]))
			d := make([]Value, n)
			for i := range d {
				d[i] = ip.p.T.Const(8, 0)
			}
			return SliceV{Data: d}
		},
		"internal/stringslite.Index": inIndexSub,
		"errors.Is": func(ip *Interp, fn *ssa.Function, a []Value) Value {
			T := ip.p.T
			err, _ := a[0].(IfaceV)
			target, _ := a[1].(IfaceV)
			for k := 0; k < 50; k++ {
				if err.T == nil {
					return T.Bool(target.T == nil)
				}
				if target.T != nil && types.Identical(err.T, target.T) {
					if ip.p.Branch(ip.valEq(err, target)) {
						return T.True
					}
				}
				sel := ip.pr.Prog.MethodSets.MethodSet(err.T).Lookup(nil, "Unwrap")
				if sel == nil {
					return T.False
				}
				m := ip.pr.Prog.MethodValue(sel)
				if m == nil || m.Signature.Results().Len() != 1 {
					return T.False
				}
				r := ip.callFunction(m, []Value{err.V})
				next, ok := r.(IfaceV)
				if !ok {
					return T.False
				}
				err = next
			}
			return T.False
		},
		"regexp.MatchString": func(ip *Interp, fn *ssa.Function, a []Value) Value {
			pat := ip.concStr(a[0].(*StrV))
			str := ip.concStr(a[1].(*StrV))
			m, err := regexp.MatchString(pat, str)
			if err != nil {
				return TupleV{ip.p.T.Bool(m), ip.mkError(err.Error())}
			}
			return TupleV{ip.p.T.Bool(m), IfaceV{}}
		},
		"runtime.NumCPU": func(ip *Interp, fn *ssa.Function, a []Value) Value {
			if ip.numCPU > 0 {
				return ip.p.T.Const(64, uint64(ip.numCPU))
			}
			return ip.p.T.Const(64, uint64(ip.pr.NumCPU))
		},
		"runtime.GOMAXPROCS": func(ip *Interp, fn *ssa.Function, a []Value) Value {
			return ip.p.T.Const(64, uint64(ip.pr.NumCPU))
		},
	}
}

// mkError builds an error value through the real errors.New.
func (ip *Interp) mkError(msg string) Value {
	pkg := ip.pr.Prog.ImportedPackage("errors")
	if pkg == nil {
		panic(engineError{"package errors not loaded"})
	}
	return ip.callFunction(pkg.Func("New"), []Value{mkStr(msg)})
}

// concStr concretises every byte of s (forking over feasible values).
func (ip *Interp) concStr(s *StrV) string {
	if s.IsConc() {
		return s.S
	}
	b := make([]byte, len(s.Sym))
	for i, t := range s.Sym {
		b[i] = byte(ip.p.Concretize(t))
	}
	return string(b)
}

func inErrorf(ip *Interp, fn *ssa.Function, a []Value) Value {
	f := a[0].(*StrV)
	msg := "<fmt.Errorf>"
	if f.IsConc() {
		msg = f.S
	}
	return ip.mkError(msg)
}

func inPrintNop(ip *Interp, fn *ssa.Function, a []Value) Value {
	return TupleV{ip.p.T.Const(64, 0), IfaceV{}}
}

// formatArgs renders fmt arguments for the verbs gofasta uses (%s %d %v %f with concrete values).
func (ip *Interp) formatArgs(kind string, a []Value) *StrV {
	var format string
	var rest []Value
	if kind == "f" {
		format = ip.concStr(a[0].(*StrV))
		if len(a) > 1 {
			rest = a[1].(SliceV).Data
		}
	} else {
		rest = a[0].(SliceV).Data
	}
	toGo := func(v Value) interface{} {
		if iv, ok := v.(IfaceV); ok {
			v = iv.V
			if iv.T != nil {
				if b, ok := iv.T.Underlying().(*types.Basic); ok {
					switch x := v.(type) {
					case *Term:
						n := ip.concInt(x)
						if b.Info()&types.IsBoolean != 0 {
							return n != 0
						}
						if b.Info()&types.IsUnsigned != 0 {
							return uint64(n) & mask(x.W)
						}
						return n
					case float64:
						return x
					case *StrV:
						return ip.concStr(x)
					}
				}
			}
		}
		switch x := v.(type) {
		case *StrV:
			return ip.concStr(x)
		case float64:
			return x
		case *Term:
			return ip.concInt(x)
		}
		return "<" + describe(v) + ">"
	}
	gs := make([]interface{}, len(rest))
	for i, r := range rest {
		gs[i] = toGo(r)
	}
	switch kind {
	case "f":
		return mkStr(fmt.Sprintf(format, gs...))
	case "ln":
		return mkStr(fmt.Sprintln(gs...))
	}
	return mkStr(fmt.Sprint(gs...))
}

func inSprintf(ip *Interp, fn *ssa.Function, a []Value) Value {
	if fn.Name() == "Sprintf" {
		return ip.formatArgs("f", a)
	}
	return ip.formatArgs("", a)
}

// inFprint: writes to os.Stderr/os.Stdout (nil *os.File here) are discarded; other writers get the
// formatted text through their Write method.
func inFprint(ip *Interp, fn *ssa.Function, a []Value) Value {
	T := ip.p.T
	w, _ := a[0].(IfaceV)
	if h, ok := w.V.(*HostObj); ok && (h.Kind == "os.Stdout" || h.Kind == "file" || h.Kind == "devfull") {
		var s *StrV
		switch fn.Name() {
		case "Fprintf":
			s = ip.formatArgs("f", a[1:])
		case "Fprintln":
			s = ip.formatArgs("ln", a[1:])
		default:
			s = ip.formatArgs("", a[1:])
		}
		return ip.fileWrite(h, ip.strBytes(s))
	}
	if w.T == nil || strings.HasSuffix(w.T.String(), "os.File") {
		return TupleV{T.Const(64, 0), IfaceV{}}
	}
	if _, ok := w.V.(*Opaque); ok {
		return TupleV{T.Const(64, 0), IfaceV{}}
	}
	var s *StrV
	switch fn.Name() {
	case "Fprintf":
		s = ip.formatArgs("f", a[1:])
	case "Fprintln":
		s = ip.formatArgs("ln", a[1:])
	default:
		s = ip.formatArgs("", a[1:])
	}
	return ip.callWrite(w, s)
}

// fileWrite is (*os.File).Write on the engine's files: the in-memory files and the captured os.Stdout grow,
// /dev/full refuses every byte, and under vFileSizeLimit a regular file (and os.Stdout when it stands for one)
// stores what still fits and fails like write(2) under RLIMIT_FSIZE. Other handles (os.Stderr) swallow the bytes.
func (ip *Interp) fileWrite(h *HostObj, bs []*Term) Value {
	T := ip.p.T
	if h == nil {
		return TupleV{T.Const(64, uint64(len(bs))), IfaceV{}}
	}
	fit := len(bs)
	limited := func(cur int) {
		if ip.fsizeLimitOn && cur+len(bs) > ip.fsizeLimit {
			fit = ip.fsizeLimit - cur
			if fit < 0 {
				fit = 0
			}
		}
	}
	switch h.Kind {
	case "devfull":
		if len(bs) == 0 {
			return TupleV{T.Const(64, 0), IfaceV{}}
		}
		return TupleV{T.Const(64, 0), ip.mkError("write /dev/full: no space left on device")}
	case "os.Stdout":
		if ip.stdoutIsFile {
			limited(len(ip.stdout))
		}
		ip.stdout = append(ip.stdout, bs[:fit]...)
	case "file":
		limited(len(h.Data))
		for _, b := range bs[:fit] {
			h.Data = append(h.Data, b)
		}
	}
	if fit < len(bs) {
		return TupleV{T.Const(64, uint64(fit)), ip.mkError("write: file too large")}
	}
	return TupleV{T.Const(64, uint64(len(bs))), IfaceV{}}
}

// callWrite invokes w.Write([]byte(s)).
func (ip *Interp) callWrite(w IfaceV, s *StrV) Value {
	m := ip.pr.Prog.LookupMethod(w.T, nil, "Write")
	if m == nil {
		panic(engineError{"writer without Write method: " + w.T.String()})
	}
	bs := ip.strBytes(s)
	d := make([]Value, len(bs))
	for i, b := range bs {
		d[i] = b
	}
	return ip.callFunction(m, []Value{w.V, SliceV{Data: d}})
}

func inItoa(ip *Interp, fn *ssa.Function, a []Value) Value {
	return mkStr(strconv.Itoa(int(ip.concInt(a[0]))))
}

func inAtoi(ip *Interp, fn *ssa.Function, a []Value) Value {
	s := ip.concStr(a[0].(*StrV))
	n, err := strconv.Atoi(s)
	if err != nil {
		return TupleV{ip.p.T.Const(64, uint64(int64(n))), ip.mkError("strconv.Atoi: parsing " + strconv.Quote(s) + ": invalid syntax")}
	}
	return TupleV{ip.p.T.Const(64, uint64(int64(n))), IfaceV{}}
}

func inFormatFloat(ip *Interp, fn *ssa.Function, a []Value) Value {
	f := a[0].(float64)
	return mkStr(strconv.FormatFloat(f, byte(ip.concInt(a[1])), int(ip.concInt(a[2])), int(ip.concInt(a[3]))))
}

func inParseFloat(ip *Interp, fn *ssa.Function, a []Value) Value {
	s := ip.concStr(a[0].(*StrV))
	f, err := strconv.ParseFloat(s, int(ip.concInt(a[1])))
	if err != nil {
		return TupleV{f, ip.mkError("strconv.ParseFloat: parsing " + strconv.Quote(s))}
	}
	return TupleV{f, IfaceV{}}
}

func inJoin(ip *Interp, fn *ssa.Function, a []Value) Value {
	elems := a[0].(SliceV).Data
	sep := a[1].(*StrV)
	allConc := sep.IsConc()
	for _, e := range elems {
		if !e.(*StrV).IsConc() {
			allConc = false
		}
	}
	if allConc {
		ss := make([]string, len(elems))
		for i, e := range elems {
			ss[i] = e.(*StrV).S
		}
		return mkStr(strings.Join(ss, sep.S))
	}
	var out []*Term
	for i, e := range elems {
		if i > 0 {
			out = append(out, ip.strBytes(sep)...)
		}
		out = append(out, ip.strBytes(e.(*StrV))...)
	}
	return strFromTerms(out)
}

func (ip *Interp) isASCIIByte(b *Term) bool {
	T := ip.p.T
	return ip.p.Branch(T.Cmp(OpUlt, b, T.Const(8, 0x80)))
}

func inToUpper(ip *Interp, fn *ssa.Function, a []Value) Value {
	s := a[0].(*StrV)
	if s.IsConc() {
		return mkStr(strings.ToUpper(s.S))
	}
	T := ip.p.T
	out := make([]*Term, len(s.Sym))
	for i, b := range s.Sym {
		if b.IsConst() && b.C < 0x80 {
			out[i] = T.Const(8, uint64(strings.ToUpper(string(rune(b.C)))[0]))
			continue
		}
		if !ip.isASCIIByte(b) {
			// non-ASCII content: fall back to the host on fully concrete bytes
			return mkStr(strings.ToUpper(ip.concStr(s)))
		}
		isLower := T.And(T.Cmp(OpUle, T.Const(8, 'a'), b), T.Cmp(OpUle, b, T.Const(8, 'z')))
		out[i] = T.Ite(isLower, T.Bin(OpSub, b, T.Const(8, 32)), b)
	}
	return strFromTerms(out)
}

func inToLower(ip *Interp, fn *ssa.Function, a []Value) Value {
	s := a[0].(*StrV)
	if s.IsConc() {
		return mkStr(strings.ToLower(s.S))
	}
	T := ip.p.T
	out := make([]*Term, len(s.Sym))
	for i, b := range s.Sym {
		if b.IsConst() && b.C < 0x80 {
			out[i] = T.Const(8, uint64(strings.ToLower(string(rune(b.C)))[0]))
			continue
		}
		if !ip.isASCIIByte(b) {
			return mkStr(strings.ToLower(ip.concStr(s)))
		}
		isUpper := T.And(T.Cmp(OpUle, T.Const(8, 'A'), b), T.Cmp(OpUle, b, T.Const(8, 'Z')))
		out[i] = T.Ite(isUpper, T.Bin(OpAdd, b, T.Const(8, 32)), b)
	}
	return strFromTerms(out)
}

// isSpaceTerm: ASCII white space as strings.Fields / TrimSpace see it ('\t','\n','\v','\f','\r',' ').
// Bytes >= 0x80 are concretised by the caller.
func (ip *Interp) isSpaceTerm(b *Term) *Term {
	T := ip.p.T
	return T.Or(T.Cmp(OpEq, b, T.Const(8, ' ')), T.And(T.Cmp(OpUle, T.Const(8, 9), b), T.Cmp(OpUle, b, T.Const(8, 13))))
}

// asciiOrConc makes sure every symbolic byte of s is ASCII on this path, else concretises s.
func (ip *Interp) asciiOrConc(s *StrV) *StrV {
	if s.IsConc() {
		return s
	}
	for _, b := range s.Sym {
		if b.IsConst() {
			if b.C >= 0x80 {
				return mkStr(ip.concStr(s))
			}
			continue
		}
		if !ip.isASCIIByte(b) {
			return mkStr(ip.concStr(s))
		}
	}
	return s
}

func strSlice(ss []*StrV) Value {
	d := make([]Value, len(ss))
	for i, s := range ss {
		d[i] = s
	}
	return SliceV{Data: d}
}

// spaceAt decides whether a Unicode white-space rune (as strings.Fields / unicode.IsSpace see it) starts
// at byte i of bs, and returns its length in bytes (0 = no). Decisions on symbolic bytes fork; bytes >= 0x80
// are handled by their UTF-8 structure (U+0085, U+00A0, U+1680, U+2000-200A, U+2028, U+2029, U+202F, U+205F,
// U+3000), without enumerating byte values.
func (ip *Interp) spaceAt(bs []*Term, i int) int {
	T := ip.p.T
	b0 := bs[i]
	eq := func(b *Term, v uint64) bool { return ip.p.Branch(T.Cmp(OpEq, b, T.Const(8, v))) }
	in := func(b *Term, lo, hi uint64) bool {
		return ip.p.Branch(T.And(T.Cmp(OpUle, T.Const(8, lo), b), T.Cmp(OpUle, b, T.Const(8, hi))))
	}
	if ip.p.Branch(T.Cmp(OpUlt, b0, T.Const(8, 0x80))) {
		if ip.p.Branch(ip.isSpaceTerm(b0)) {
			return 1
		}
		return 0
	}
	if !in(b0, 0xC2, 0xE3) {
		return 0
	}
	if eq(b0, 0xC2) {
		if i+1 < len(bs) && (eq(bs[i+1], 0x85) || eq(bs[i+1], 0xA0)) {
			return 2
		}
		return 0
	}
	if i+2 >= len(bs) {
		return 0
	}
	if eq(b0, 0xE1) {
		if eq(bs[i+1], 0x9A) && eq(bs[i+2], 0x80) {
			return 3
		}
		return 0
	}
	if eq(b0, 0xE2) {
		if eq(bs[i+1], 0x80) {
			if in(bs[i+2], 0x80, 0x8A) || eq(bs[i+2], 0xA8) || eq(bs[i+2], 0xA9) || eq(bs[i+2], 0xAF) {
				return 3
			}
			return 0
		}
		if eq(bs[i+1], 0x81) && eq(bs[i+2], 0x9F) {
			return 3
		}
		return 0
	}
	if eq(b0, 0xE3) {
		if eq(bs[i+1], 0x80) && eq(bs[i+2], 0x80) {
			return 3
		}
	}
	return 0
}

func inFields(ip *Interp, fn *ssa.Function, a []Value) Value {
	s := a[0].(*StrV)
	if s.IsConc() {
		fs := strings.Fields(s.S)
		out := make([]*StrV, len(fs))
		for i, f := range fs {
			out[i] = mkStr(f)
		}
		return strSlice(out)
	}
	bs := s.Sym
	var out []*StrV
	start := -1
	i := 0
	for i < len(bs) {
		n := ip.spaceAt(bs, i)
		if n > 0 {
			if start >= 0 {
				out = append(out, strFromTerms(bs[start:i]))
				start = -1
			}
			i += n
			continue
		}
		if start < 0 {
			start = i
		}
		i++
	}
	if start >= 0 {
		out = append(out, strFromTerms(bs[start:]))
	}
	return strSlice(out)
}

func inTrimSpace(ip *Interp, fn *ssa.Function, a []Value) Value {
	s := ip.asciiOrConc(a[0].(*StrV))
	if s.IsConc() {
		return mkStr(strings.TrimSpace(s.S))
	}
	lo, hi := 0, len(s.Sym)
	for lo < hi && ip.p.Branch(ip.isSpaceTerm(s.Sym[lo])) {
		lo++
	}
	for hi > lo && ip.p.Branch(ip.isSpaceTerm(s.Sym[hi-1])) {
		hi--
	}
	return strFromTerms(s.Sym[lo:hi])
}

func (ip *Interp) inCutset(b *Term, cut string) *Term {
	T := ip.p.T
	r := T.False
	for i := 0; i < len(cut); i++ {
		r = T.Or(r, T.Cmp(OpEq, b, T.Const(8, uint64(cut[i]))))
	}
	return r
}

func inTrimLeft(ip *Interp, fn *ssa.Function, a []Value) Value {
	s := a[0].(*StrV)
	cut := ip.concStr(a[1].(*StrV))
	if s.IsConc() {
		return mkStr(strings.TrimLeft(s.S, cut))
	}
	s = ip.asciiOrConc(s)
	if s.IsConc() {
		return mkStr(strings.TrimLeft(s.S, cut))
	}
	lo := 0
	for lo < len(s.Sym) && ip.p.Branch(ip.inCutset(s.Sym[lo], cut)) {
		lo++
	}
	return strFromTerms(s.Sym[lo:])
}

func inTrimRight(ip *Interp, fn *ssa.Function, a []Value) Value {
	s := a[0].(*StrV)
	cut := ip.concStr(a[1].(*StrV))
	if s.IsConc() {
		return mkStr(strings.TrimRight(s.S, cut))
	}
	s = ip.asciiOrConc(s)
	if s.IsConc() {
		return mkStr(strings.TrimRight(s.S, cut))
	}
	hi := len(s.Sym)
	for hi > 0 && ip.p.Branch(ip.inCutset(s.Sym[hi-1], cut)) {
		hi--
	}
	return strFromTerms(s.Sym[:hi])
}

func (ip *Interp) prefixTerm(s, pre *StrV) *Term {
	T := ip.p.T
	if pre.Len() > s.Len() {
		return T.False
	}
	sb, pb := ip.strBytes(s), ip.strBytes(pre)
	r := T.True
	for i := range pb {
		r = T.And(r, T.Cmp(OpEq, sb[i], pb[i]))
	}
	return r
}

func inHasPrefix(ip *Interp, fn *ssa.Function, a []Value) Value {
	return ip.prefixTerm(a[0].(*StrV), a[1].(*StrV))
}

func inHasSuffix(ip *Interp, fn *ssa.Function, a []Value) Value {
	T := ip.p.T
	s, suf := a[0].(*StrV), a[1].(*StrV)
	if suf.Len() > s.Len() {
		return T.False
	}
	sb, pb := ip.strBytes(s), ip.strBytes(suf)
	off := len(sb) - len(pb)
	r := T.True
	for i := range pb {
		r = T.And(r, T.Cmp(OpEq, sb[off+i], pb[i]))
	}
	return r
}

func inTrimPrefix(ip *Interp, fn *ssa.Function, a []Value) Value {
	s, pre := a[0].(*StrV), a[1].(*StrV)
	if ip.p.Branch(ip.prefixTerm(s, pre)) {
		return strFromTerms(ip.strBytes(s)[pre.Len():])
	}
	return s
}

// matchAt: term for "sep occurs in s at offset i".
func (ip *Interp) matchAt(sb []*Term, i int, sep []*Term) *Term {
	T := ip.p.T
	if i+len(sep) > len(sb) {
		return T.False
	}
	r := T.True
	for k := range sep {
		r = T.And(r, T.Cmp(OpEq, sb[i+k], sep[k]))
	}
	return r
}

func inContains(ip *Interp, fn *ssa.Function, a []Value) Value {
	T := ip.p.T
	s, sub := a[0].(*StrV), a[1].(*StrV)
	if s.IsConc() && sub.IsConc() {
		return T.Bool(strings.Contains(s.S, sub.S))
	}
	sb, pb := ip.strBytes(s), ip.strBytes(sub)
	r := T.False
	for i := 0; i+len(pb) <= len(sb); i++ {
		r = T.Or(r, ip.matchAt(sb, i, pb))
	}
	return r
}

func inSplit(ip *Interp, fn *ssa.Function, a []Value) Value {
	s, sep := a[0].(*StrV), a[1].(*StrV)
	if s.IsConc() && sep.IsConc() {
		fs := strings.Split(s.S, sep.S)
		out := make([]*StrV, len(fs))
		for i, f := range fs {
			out[i] = mkStr(f)
		}
		return strSlice(out)
	}
	if sep.Len() == 0 {
		unsupported("strings.Split with empty separator on symbolic string")
	}
	sb, pb := ip.strBytes(s), ip.strBytes(sep)
	var out []*StrV
	start := 0
	i := 0
	for i+len(pb) <= len(sb) {
		if ip.p.Branch(ip.matchAt(sb, i, pb)) {
			out = append(out, strFromTerms(sb[start:i]))
			i += len(pb)
			start = i
		} else {
			i++
		}
	}
	out = append(out, strFromTerms(sb[start:]))
	return strSlice(out)
}

func inReplaceAll(ip *Interp, fn *ssa.Function, a []Value) Value {
	return replaceN(ip, a[0].(*StrV), a[1].(*StrV), a[2].(*StrV), -1)
}

// replaceN is strings.Replace: the first n non-overlapping matches are replaced (n < 0: all).
func replaceN(ip *Interp, s, old, nw *StrV, n int) Value {
	if s.IsConc() && old.IsConc() && nw.IsConc() {
		return mkStr(strings.Replace(s.S, old.S, nw.S, n))
	}
	if old.Len() == 0 {
		unsupported("strings.Replace with empty pattern on symbolic string")
	}
	sb, ob, nb := ip.strBytes(s), ip.strBytes(old), ip.strBytes(nw)
	var out []*Term
	i := 0
	done := 0
	for i < len(sb) {
		if (n < 0 || done < n) && i+len(ob) <= len(sb) && ip.p.Branch(ip.matchAt(sb, i, ob)) {
			done++
			out = append(out, nb...)
			i += len(ob)
		} else {
			out = append(out, sb[i])
			i++
		}
	}
	return strFromTerms(out)
}

func inReaderRead(ip *Interp, fn *ssa.Function, a []Value) Value {
	T := ip.p.T
	r := a[0].(*HostObj)
	dst := a[1].(SliceV).Data
	if r.Pos >= len(r.Data) {
		eof := ip.load(Pointer{Slot: ip.global(ip.pr.Prog.ImportedPackage("io").Var("EOF"))})
		return TupleV{T.Const(64, 0), eof}
	}
	n := copy(dst, r.Data[r.Pos:])
	r.Pos += n
	return TupleV{T.Const(64, uint64(n)), IfaceV{}}
}

// ---- sorting: the algorithms the standard library runs at these sizes ----

func (ip *Interp) lessCall(less Value, i, j int) bool {
	T := ip.p.T
	r := ip.call(less, []Value{T.Const(64, uint64(i)), T.Const(64, uint64(j))}, nil)
	return ip.p.Branch(r.(*Term))
}

// inSortSlice: sort.Slice / sort.SliceStable run the standard library's own pdqsort_func / stable_func (interpreted
// from their SSA, so every size takes the algorithm the real program takes); only the reflection-based element
// swapper and length are supplied by the engine. sort.Sort / sort.Stable are interpreted entirely from SSA.
func inSortSlice(ip *Interp, fn *ssa.Function, a []Value) Value {
	T := ip.p.T
	sl, ok := a[0].(IfaceV).V.(SliceV)
	if !ok {
		panic(engineError{"sort.Slice of non-slice"})
	}
	n := len(sl.Data)
	swap := &HostFn{Name: "reflectlite.Swapper", F: func(ip *Interp, args []Value) Value {
		i, j := int(ip.concInt(args[0])), int(ip.concInt(args[1]))
		sl.Data[i], sl.Data[j] = sl.Data[j], sl.Data[i]
		return nil
	}}
	pkg := fn.Pkg
	ls := StructV{a[1], swap}
	if fn.Name() == "SliceStable" {
		f := pkg.Func("stable_func")
		if f == nil {
			panic(engineError{"sort.stable_func not found"})
		}
		ip.callFunction(f, []Value{ls, T.Const(64, uint64(n))})
		return nil
	}
	f := pkg.Func("pdqsort_func")
	if f == nil {
		panic(engineError{"sort.pdqsort_func not found"})
	}
	limit := 0
	for x := n; x > 0; x >>= 1 {
		limit++
	}
	ip.callFunction(f, []Value{ls, T.Const(64, 0), T.Const(64, uint64(n)), T.Const(64, uint64(limit))})
	return nil
}

func inSortInts(ip *Interp, fn *ssa.Function, a []Value) Value {
	T := ip.p.T
	d := a[0].(SliceV).Data
	for i := 1; i < len(d); i++ {
		for j := i; j > 0 && ip.p.Branch(T.Cmp(OpSlt, d[j].(*Term), d[j-1].(*Term))); j-- {
			d[j], d[j-1] = d[j-1], d[j]
		}
	}
	return nil
}

func inSortStrings(ip *Interp, fn *ssa.Function, a []Value) Value {
	d := a[0].(SliceV).Data
	for i := 1; i < len(d); i++ {
		for j := i; j > 0 && ip.p.Branch(ip.strLess(d[j].(*StrV), d[j-1].(*StrV))); j-- {
			d[j], d[j-1] = d[j-1], d[j]
		}
	}
	return nil
}

// ---- unicode ----

func (ip *Interp) runeArg(v Value) (*Term, bool) {
	r := v.(*Term)
	if r.IsConst() {
		return r, true
	}
	T := ip.p.T
	if ip.p.Branch(T.Cmp(OpUlt, r, T.Const(32, 0x80))) {
		return r, false
	}
	return T.Const(32, ip.p.Concretize(r)), true
}

func inIsLetter(ip *Interp, fn *ssa.Function, a []Value) Value {
	T := ip.p.T
	r, conc := ip.runeArg(a[0])
	if conc {
		return T.Bool(unicode.IsLetter(rune(int32(r.C))))
	}
	l := T.Bin(OpOr, r, T.Const(32, 0x20))
	return T.And(T.Cmp(OpUle, T.Const(32, 'a'), l), T.Cmp(OpUle, l, T.Const(32, 'z')))
}

func inIsUpper(ip *Interp, fn *ssa.Function, a []Value) Value {
	T := ip.p.T
	r, conc := ip.runeArg(a[0])
	if conc {
		return T.Bool(unicode.IsUpper(rune(int32(r.C))))
	}
	return T.And(T.Cmp(OpUle, T.Const(32, 'A'), r), T.Cmp(OpUle, r, T.Const(32, 'Z')))
}

func inIsDigit(ip *Interp, fn *ssa.Function, a []Value) Value {
	T := ip.p.T
	r, conc := ip.runeArg(a[0])
	if conc {
		return T.Bool(unicode.IsDigit(rune(int32(r.C))))
	}
	return T.And(T.Cmp(OpUle, T.Const(32, '0'), r), T.Cmp(OpUle, r, T.Const(32, '9')))
}

func inDecodeRune(ip *Interp, fn *ssa.Function, a []Value) Value {
	T := ip.p.T
	d := a[0].(SliceV).Data
	if len(d) == 0 {
		return TupleV{T.Const(32, uint64(utf8.RuneError)), T.Const(64, 0)}
	}
	b := d[0].(*Term)
	if !b.IsConst() {
		if ip.isASCIIByte(b) {
			return TupleV{T.Zext(b, 32), T.Const(64, 1)}
		}
	} else if b.C < 0x80 {
		return TupleV{T.Const(32, b.C), T.Const(64, 1)}
	}
	buf := make([]byte, 0, 4)
	for j := 0; j < len(d) && j < 4; j++ {
		buf = append(buf, byte(ip.p.Concretize(d[j].(*Term))))
	}
	r, sz := utf8.DecodeRune(buf)
	return TupleV{T.Const(32, uint64(uint32(r))), T.Const(64, uint64(sz))}
}

// ---- bufio.Scanner (ScanLines) over a concrete-length buffer of possibly symbolic bytes ----

// readAll drains an io.Reader value into a byte-term slice.
func (ip *Interp) readAll(r Value) []Value {
	iv, ok := r.(IfaceV)
	if !ok {
		panic(engineError{fmt.Sprintf("reader is %T", r)})
	}
	if iv.T == nil {
		ip.goPanic("nil io.Reader")
	}
	if h, ok := iv.V.(*HostObj); ok && h.Kind == "os.Stdin" {
		d := ip.stdin
		ip.stdin = nil
		return d
	}
	if h, ok := iv.V.(*HostObj); ok && (h.Kind == "reader" || h.Kind == "file") {
		d := h.Data[h.Pos:]
		h.Pos = len(h.Data)
		return d
	}
	m := ip.pr.Prog.LookupMethod(iv.T, nil, "Read")
	if m == nil {
		panic(engineError{"reader without Read: " + iv.T.String()})
	}
	var out []Value
	for k := 0; k < 10000; k++ {
		buf := make([]Value, 64)
		for i := range buf {
			buf[i] = ip.p.T.Const(8, 0)
		}
		res := ip.callFunction(m, []Value{iv.V, SliceV{Data: buf}}).(TupleV)
		n := int(ip.concInt(res[0]))
		out = append(out, buf[:n]...)
		if e := res[1].(IfaceV); e.T != nil {
			return out
		}
		if n == 0 {
			k += 100
		}
	}
	panic(pathEnd{"budget", "reader never reported EOF"})
}

func inNewScanner(ip *Interp, fn *ssa.Function, a []Value) Value {
	return &HostObj{Kind: "scanner", Data: ip.readAll(a[0]), N: 64 * 1024} // bufio.MaxScanTokenSize
}

func inScan(ip *Interp, fn *ssa.Function, a []Value) Value {
	T := ip.p.T
	s := a[0].(*HostObj)
	if s.Pos >= len(s.Data) {
		s.Tok = nil
		return T.False
	}
	i := s.Pos
	for i < len(s.Data) {
		if ip.p.Branch(T.Cmp(OpEq, s.Data[i].(*Term), T.Const(8, '\n'))) {
			break
		}
		i++
	}
	tok := s.Data[s.Pos:i]
	// token limit: the scanner's buffer (at most N bytes) must hold the line and its newline
	need := i - s.Pos
	if i < len(s.Data) {
		need++
	}
	if s.N > 0 && need > s.N {
		s.Err = ip.mkError("bufio.Scanner: token too long")
		s.Tok = nil
		s.Pos = len(s.Data)
		return T.False
	}
	if i < len(s.Data) {
		s.Pos = i + 1
	} else {
		s.Pos = i
	}
	if len(tok) > 0 && ip.p.Branch(T.Cmp(OpEq, tok[len(tok)-1].(*Term), T.Const(8, '\r'))) {
		tok = tok[:len(tok)-1]
	}
	s.Tok = tok
	return T.True
}

func inScanText(ip *Interp, fn *ssa.Function, a []Value) Value {
	s := a[0].(*HostObj)
	ts := make([]*Term, len(s.Tok))
	for i, v := range s.Tok {
		ts[i] = v.(*Term)
	}
	return strFromTerms(ts)
}

func inScanBytes(ip *Interp, fn *ssa.Function, a []Value) Value {
	s := a[0].(*HostObj)
	d := make([]Value, len(s.Tok))
	copy(d, s.Tok)
	return SliceV{Data: d}
}

// ---- encoding/csv (unquoted fields only; a quote character ends the path as out of model) ----

func inCSVNewReader(ip *Interp, fn *ssa.Function, a []Value) Value {
	return &HostObj{Kind: "csv", Data: ip.readAll(a[0]), N: -1}
}

func inCSVRead(ip *Interp, fn *ssa.Function, a []Value) Value {
	T := ip.p.T
	r := a[0].(*HostObj)
	eof := func() Value {
		return ip.load(Pointer{Slot: ip.global(ip.pr.Prog.ImportedPackage("io").Var("EOF"))})
	}
	for {
		if r.Pos >= len(r.Data) {
			return TupleV{SliceV{}, eof()}
		}
		// read a line
		i := r.Pos
		for i < len(r.Data) {
			if ip.p.Branch(T.Cmp(OpEq, r.Data[i].(*Term), T.Const(8, '\n'))) {
				break
			}
			i++
		}
		line := r.Data[r.Pos:i]
		if i < len(r.Data) {
			r.Pos = i + 1
		} else {
			r.Pos = i
		}
		if len(line) > 0 && ip.p.Branch(T.Cmp(OpEq, line[len(line)-1].(*Term), T.Const(8, '\r'))) {
			line = line[:len(line)-1]
		}
		if len(line) == 0 {
			continue // csv skips empty lines
		}
		var fields []*StrV
		start := 0
		for k := 0; k <= len(line); k++ {
			if k < len(line) {
				b := line[k].(*Term)
				if ip.p.Branch(T.Cmp(OpEq, b, T.Const(8, '"'))) {
					panic(pathEnd{"cut", "csv quoting is outside the model"})
				}
				if !ip.p.Branch(T.Cmp(OpEq, b, T.Const(8, ','))) {
					continue
				}
			}
			ts := make([]*Term, k-start)
			for j := start; j < k; j++ {
				ts[j-start] = line[j].(*Term)
			}
			fields = append(fields, strFromTerms(ts))
			start = k + 1
		}
		if r.N < 0 {
			r.N = len(fields)
		} else if r.N != len(fields) {
			return TupleV{strSlice(fields), ip.mkError("record on line: wrong number of fields")}
		}
		return TupleV{strSlice(fields), IfaceV{}}
	}
}

func (ip *Interp) anyToStr(v Value) *StrV {
	switch x := v.(type) {
	case *StrV:
		return x
	case SliceV:
		ts := make([]*Term, len(x.Data))
		for i, e := range x.Data {
			ts[i] = e.(*Term)
		}
		return strFromTerms(ts)
	}
	panic(engineError{fmt.Sprintf("anyToStr on %T", v)})
}

func inIndexByte(ip *Interp, fn *ssa.Function, a []Value) Value {
	T := ip.p.T
	bs := ip.strBytes(ip.anyToStr(a[0]))
	c := a[1].(*Term)
	for i, b := range bs {
		if ip.p.Branch(T.Cmp(OpEq, b, c)) {
			return T.Const(64, uint64(i))
		}
	}
	return T.Const(64, ^uint64(0))
}

func inCountByte(ip *Interp, fn *ssa.Function, a []Value) Value {
	T := ip.p.T
	bs := ip.strBytes(ip.anyToStr(a[0]))
	c := a[1].(*Term)
	n := 0
	for _, b := range bs {
		if ip.p.Branch(T.Cmp(OpEq, b, c)) {
			n++
		}
	}
	return T.Const(64, uint64(n))
}

func inIndexSub(ip *Interp, fn *ssa.Function, a []Value) Value {
	T := ip.p.T
	sb := ip.strBytes(ip.anyToStr(a[0]))
	pb := ip.strBytes(ip.anyToStr(a[1]))
	for i := 0; i+len(pb) <= len(sb); i++ {
		if ip.p.Branch(ip.matchAt(sb, i, pb)) {
			return T.Const(64, uint64(i))
		}
	}
	return T.Const(64, ^uint64(0))
}
