package sym

import (
	"os"
	"fmt"
	"sort"
	"strings"
	"sync"
	"time"
)

// Decision is one recorded choice on a path.
type Decision struct {
	Taken bool
	Val   uint64 // for concretisation decisions: the value tested
	IsVal bool
}

type WorkItem struct {
	Prefix []Decision
	Model  map[string]uint64
}

// pathEnd is the panic payload ending a path.
type pathEnd struct {
	kind string // "ok","assume","cut","block","panic","budget","unsupported","stop"
	msg  string
}

// Violation is a failed obligation with a model.
type Violation struct {
	Harness  string            `json:"harness"`
	AssertID string            `json:"assert_id"`
	Kind     string            `json:"kind"` // "assert" or "panic"
	Msg      string            `json:"msg,omitempty"`
	Model    map[string]uint64 `json:"model"`
	Params   map[string]int    `json:"params"`
	Notes    []string          `json:"notes,omitempty"`
	Replayed string            `json:"replayed,omitempty"` // "confirmed","spurious","skipped"
	Known    string            `json:"known,omitempty"`
	Path     string            `json:"-"`
}

type Stats struct {
	Paths          int
	PathsByEnd     map[string]int
	Nontrivial     int // paths that reached an obligation with a non-constant condition
	Obligations    int // non-constant obligations asked of the solver or decided by model
	Discharged     int
	TrivialObl     int // obligations whose condition folded to constant true
	Queries        int
	SolverTime     time.Duration
	SolverErrors   int
	Unknowns       int
	Steps          int64
	Pruned         int64 // branch sides dropped by value-set evaluation (no solver call)
	Cuts           int
	MaxDepth       int
	AssertReach    map[string]int
	Inconclusive   []string
	Samples        []string
	FuncsEncoded   map[string]bool
	Intrinsics     map[string]bool
	Assumptions    map[string]bool
	ObligationDump []string // standalone SMT scripts for cross-checking
}

func newStats() *Stats {
	return &Stats{PathsByEnd: map[string]int{}, AssertReach: map[string]int{}, FuncsEncoded: map[string]bool{}, Intrinsics: map[string]bool{}, Assumptions: map[string]bool{}}
}

// Explorer runs all paths of one harness.
type Explorer struct {
	mu         sync.Mutex
	cond       *sync.Cond
	queue      []WorkItem
	active     int
	stop       bool
	Stats      *Stats
	Violations []*Violation
	MaxPaths   int
	MaxViol    int
	Deadline   time.Time
	dumpBudget int
	witnesses  []map[string]uint64
	witSeen    int
	WitMax     int
	engineFails int
	KnownMatch func(*Violation) string
	violCount  map[string]int
	newViol    int
}

func NewExplorer() *Explorer {
	e := &Explorer{Stats: newStats(), MaxViol: 60, dumpBudget: 40, violCount: map[string]int{}}
	e.cond = sync.NewCond(&e.mu)
	return e
}

func (e *Explorer) push(w WorkItem) {
	e.mu.Lock()
	e.queue = append(e.queue, w)
	e.mu.Unlock()
	e.cond.Signal()
}

func (e *Explorer) pop() (WorkItem, bool) {
	e.mu.Lock()
	defer e.mu.Unlock()
	for {
		if e.stop {
			return WorkItem{}, false
		}
		if n := len(e.queue); n > 0 {
			w := e.queue[n-1]
			e.queue = e.queue[:n-1]
			e.active++
			return w, true
		}
		if e.active == 0 {
			e.cond.Broadcast()
			return WorkItem{}, false
		}
		e.cond.Wait()
	}
}

func (e *Explorer) done() {
	e.mu.Lock()
	e.active--
	if e.active == 0 && len(e.queue) == 0 {
		e.cond.Broadcast()
	}
	e.mu.Unlock()
}

func (e *Explorer) inconclusive(msg string) {
	e.mu.Lock()
	e.addInconclusive(msg)
	e.mu.Unlock()
}

var noDomPrune = os.Getenv("SYMGO_NO_DOMPRUNE") != ""

// PathCtx is the state of one path execution.
type PathCtx struct {
	T      *TermCtx
	S      *Solver
	ex     *Explorer
	prefix []Decision
	dec    []Decision
	model  map[string]uint64
	memo   map[*Term]uint64
	known  map[*Term]bool
	pc     []*Term
	vars   []*Term
	varSet map[string]*Term
	buf    strings.Builder
	script strings.Builder // path-level transcript
	steps  int64
	maxSteps int64

	reachedNontrivial bool
	obligations, discharged, trivial int
	assertReach map[string]int
	notes  []string
	params map[string]int
	harness string
	observations []string
	concrete bool // selftest mode: all inputs come from model, no solver
	seenAssume map[string]bool
	permCounter int
	dom map[*Term]*valSet // per-variable value sets (domain.go)
	domVer map[*Term]int
	domCache map[*Term]domEntry
	pruned int
}

func (p *PathCtx) flush() {
	if p.buf.Len() > 0 {
		s := p.buf.String()
		p.S.Send(s)
		p.script.WriteString(s)
		p.buf.Reset()
	}
}

func (p *PathCtx) evalBool(t *Term) bool {
	return p.T.Eval(t, p.model, p.memo) == 1
}

func (p *PathCtx) evalU(t *Term) uint64 {
	return p.T.Eval(t, p.model, p.memo)
}

func (p *PathCtx) setModel(m map[string]uint64) {
	p.model = m
	p.memo = make(map[*Term]uint64, 256)
}

// NewVar declares (or returns) the named input variable.
func (p *PathCtx) NewVar(name string, w int, initial uint64) *Term {
	if v, ok := p.varSet[name]; ok {
		if v.W != w {
			panic(engineError{"variable " + name + " redeclared with another width"})
		}
		return v
	}
	v := p.T.Var(name, w)
	p.varSet[name] = v
	p.vars = append(p.vars, v)
	if _, ok := p.model[name]; !ok {
		p.model[name] = initial
	}
	if !p.concrete {
		p.T.Emit(v, &p.buf)
	}
	return v
}

func (p *PathCtx) addPC(c *Term, val bool) {
	if val {
		p.known[c] = true
		p.known[p.T.Not(c)] = false
		p.pc = append(p.pc, c)
	} else {
		n := p.T.Not(c)
		p.known[c] = false
		p.known[n] = true
		p.pc = append(p.pc, n)
	}
	if p.concrete {
		return
	}
	p.domRestrict(c, val)
	ref := p.T.Emit(c, &p.buf)
	if val {
		fmt.Fprintf(&p.buf, "(assert %s)\n", ref)
	} else {
		fmt.Fprintf(&p.buf, "(assert (not %s))\n", ref)
	}
	// conjunctions: also remember the conjuncts
	if val && c.Op == OpBAnd {
		for _, a := range c.Args {
			p.known[a] = true
			p.known[p.T.Not(a)] = false
		}
	}
	if !val && c.Op == OpBOr {
		for _, a := range c.Args {
			p.known[a] = false
			p.known[p.T.Not(a)] = true
		}
	}
}

// querySide checks PC ∧ (cond == val); returns "sat" (with model), "unsat", or other.
func (p *PathCtx) querySide(cond *Term, val bool) (string, map[string]uint64) {
	ref := p.T.Emit(cond, &p.buf)
	p.flush()
	lit := ref
	if !val {
		lit = "(not " + ref + ")"
	}
	// the side is an assumption literal: the solver keeps its state across questions (no push/pop)
	r := p.S.CheckSatAssuming(lit)
	var m map[string]uint64
	if r == "sat" {
		m = p.S.GetValues(p.vars)
	}
	return r, m
}

func (p *PathCtx) cloneDec(extra Decision) []Decision {
	d := make([]Decision, len(p.dec)+1)
	copy(d, p.dec)
	d[len(p.dec)] = extra
	return d
}

// Branch decides a symbolic condition, forking when both sides are feasible.
func (p *PathCtx) Branch(cond *Term) bool {
	return p.branch(cond, false, 0)
}

func (p *PathCtx) branch(cond *Term, isVal bool, val uint64) bool {
	if cond.IsConst() {
		return cond.C == 1
	}
	if v, ok := p.known[cond]; ok {
		return v
	}
	if p.concrete {
		return p.evalBool(cond)
	}
	if !noDomPrune {
		if ct, cf, ok := p.domSides(cond); ok && ct != cf {
			// only one side is possible over the current value sets: no decision, no solver call
			p.pruned++
			return ct
		}
	}
	i := len(p.dec)
	if i < len(p.prefix) {
		d := p.prefix[i]
		p.dec = append(p.dec, d)
		p.addPC(cond, d.Taken)
		return d.Taken
	}
	side := p.evalBool(cond)
	r, m := p.querySide(cond, !side)
	switch r {
	case "sat":
		p.ex.push(WorkItem{Prefix: p.cloneDec(Decision{Taken: !side, Val: val, IsVal: isVal}), Model: m})
	case "unsat":
	default:
		p.ex.mu.Lock()
		p.ex.Stats.Unknowns++
		p.ex.mu.Unlock()
		p.ex.inconclusive("branch feasibility " + r)
	}
	p.dec = append(p.dec, Decision{Taken: side, Val: val, IsVal: isVal})
	p.addPC(cond, side)
	return side
}

// Concretize forks over every feasible value of t and returns the value on this path.
func (p *PathCtx) Concretize(t *Term) uint64 {
	for n := 0; ; n++ {
		if t.IsConst() {
			return t.C
		}
		if n > 100000 {
			eqd := p.T.Cmp(OpEq, t, p.T.Const(t.W, p.evalU(t)))
			kv, kok := p.known[eqd]
			panic(pathEnd{"budget", "concretize: too many values for " + t.String() + fmt.Sprintf(" (last value tried %d; W=%d; eq=%s const=%v known=%v/%v; dec=%d prefix=%d concrete=%v model=%s)", p.evalU(t), t.W, eqd.String(), eqd.IsConst(), kv, kok, len(p.dec), len(p.prefix), p.concrete, modelString(p.model))})
		}
		// If the path condition already pins t to one value (an earlier identical concretisation), every
		// model gives that value and no decision is consumed -- neither here nor when an ancestor ran this.
		vm := p.evalU(t)
		eqm := p.T.Cmp(OpEq, t, p.T.Const(t.W, vm))
		if eqm.IsConst() && eqm.C == 1 {
			return vm
		}
		if kv, ok := p.known[eqm]; ok && kv {
			return vm
		}
		if !noDomPrune && !p.concrete {
			// likewise when the value sets leave t a single value: branch() would take no decision
			if ct, cf, ok := p.domSides(eqm); ok && ct && !cf {
				return vm
			}
		}
		var v uint64
		i := len(p.dec)
		if !p.concrete && i < len(p.prefix) && p.prefix[i].IsVal {
			v = p.prefix[i].Val
		} else {
			v = vm
		}
		c := p.T.Const(t.W, v)
		eq := p.T.Cmp(OpEq, t, c)
		if eq.IsConst() {
			if eq.C == 1 {
				return v
			}
			continue
		}
		if kv, ok := p.known[eq]; ok {
			if kv {
				return v
			}
			// model disagrees with known PC; should not happen
			panic(engineError{"concretize: model inconsistent with path condition"})
		}
		if p.branch(eq, true, v) {
			return v
		}
	}
}

// Assume adds c to the path condition (ending the path if infeasible).
func (p *PathCtx) Assume(c *Term) {
	if c.IsConst() {
		if c.C == 0 {
			panic(pathEnd{"assume", "assumption is false"})
		}
		return
	}
	if v, ok := p.known[c]; ok {
		if !v {
			panic(pathEnd{"assume", "assumption contradicts path"})
		}
		return
	}
	if p.concrete {
		if !p.evalBool(c) {
			panic(pathEnd{"assume", "assumption false on concrete input"})
		}
		return
	}
	if !p.evalBool(c) {
		// is this a replayed prefix whose model already accounts for it? then evalBool would be true.
		r, m := p.querySide(c, true)
		switch r {
		case "sat":
			p.setModel(m)
		case "unsat":
			panic(pathEnd{"assume", "assumption infeasible"})
		default:
			p.ex.mu.Lock()
			p.ex.Stats.Unknowns++
			p.ex.mu.Unlock()
			p.ex.inconclusive("assume feasibility " + r)
			panic(pathEnd{"unsupported", "assume: solver " + r})
		}
	}
	p.addPC(c, true)
}

// Assert checks an obligation: PC ∧ ¬c must be unsat.
func (p *PathCtx) Assert(id string, c *Term, msg string) {
	if c.IsConst() && c.C == 1 {
		p.assertReach[id]++
		p.trivial++
		return
	}
	if v, ok := p.known[c]; ok && v {
		p.assertReach[id]++
		p.trivial++
		return
	}
	if !p.concrete && len(p.dec) < len(p.prefix) {
		// An ancestor path executed this very obligation under the same path condition.
		return
	}
	p.assertReach[id]++
	p.reachedNontrivial = true
	p.obligations++
	if p.concrete {
		if !p.evalBool(c) {
			p.violation(id, "assert", msg, p.model)
		} else {
			p.discharged++
		}
		return
	}
	if c.IsConst() || !p.evalBool(c) {
		// current model is a witness
		p.violation(id, "assert", msg, p.model)
	} else {
		r, m := p.querySide(c, false)
		switch r {
		case "unsat":
			p.discharged++
			p.maybeDump(id, c)
			// remembered for later identical conditions, but not added to the solver's assertion stack
			p.known[c] = true
			p.known[p.T.Not(c)] = false
			return
		case "sat":
			p.violation(id, "assert", msg, m)
		default:
			p.ex.mu.Lock()
			p.ex.Stats.Unknowns++
			p.ex.mu.Unlock()
			p.ex.inconclusive(fmt.Sprintf("obligation %s: solver %s", id, r))
			return
		}
	}
	// a violated obligation does not constrain the rest of the path
}

// assumeAfterAssert continues under the assumption that the assertion holds
// (so that independent violations further down the path are still found).
func (p *PathCtx) assumeAfterAssert(c *Term) {
	if c.IsConst() {
		panic(pathEnd{"stop", "assertion constantly false"})
	}
	defer func() {
		if r := recover(); r != nil {
			if pe, ok := r.(pathEnd); ok && pe.kind == "assume" {
				panic(pathEnd{"stop", "assertion fails on whole path"})
			}
			panic(r)
		}
	}()
	p.Assume(c)
}

func (p *PathCtx) maybeDump(id string, c *Term) {
	ex := p.ex
	ex.mu.Lock()
	ok := ex.dumpBudget > 0
	if ok {
		ex.dumpBudget--
	}
	ex.mu.Unlock()
	if !ok {
		return
	}
	ref := p.T.Emit(c, &p.buf)
	p.flush()
	s := p.script.String() + "(assert (not " + ref + "))\n(check-sat)\n"
	ex.mu.Lock()
	ex.Stats.ObligationDump = append(ex.Stats.ObligationDump, s)
	ex.mu.Unlock()
}

func (p *PathCtx) violation(id, kind, msg string, model map[string]uint64) {
	m := map[string]uint64{}
	for _, v := range p.vars {
		m[v.Name] = model[v.Name]
	}
	pr := map[string]int{}
	for k, v := range p.params {
		pr[k] = v
	}
	v := &Violation{Harness: p.harness, AssertID: id, Kind: kind, Msg: msg, Model: m, Params: pr, Notes: append([]string(nil), p.notes...)}
	ex := p.ex
	if ex.KnownMatch != nil {
		v.Known = ex.KnownMatch(v)
	}
	ex.mu.Lock()
	key := v.AssertID + "|" + v.Known
	ex.violCount[key]++
	if v.Known != "" {
		// listed findings: keep a few examples, never cut the exploration short
		if ex.violCount[key] <= 3 {
			ex.Violations = append(ex.Violations, v)
		}
	} else {
		ex.Violations = append(ex.Violations, v)
		ex.newViol++
		if ex.newViol >= ex.MaxViol {
			ex.stop = true
			ex.cond.Broadcast()
		}
	}
	ex.mu.Unlock()
}

func modelString(m map[string]uint64) string {
	keys := make([]string, 0, len(m))
	for k := range m {
		keys = append(keys, k)
	}
	sort.Strings(keys)
	var sb strings.Builder
	for i, k := range keys {
		if i > 0 {
			sb.WriteByte(' ')
		}
		fmt.Fprintf(&sb, "%s=%d", k, m[k])
	}
	return sb.String()
}

// addInconclusive records a reason once. Caller holds e.mu.
func (e *Explorer) addInconclusive(msg string) {
	for _, m := range e.Stats.Inconclusive {
		if m == msg {
			return
		}
	}
	if len(e.Stats.Inconclusive) < 30 {
		e.Stats.Inconclusive = append(e.Stats.Inconclusive, msg)
	}
}
