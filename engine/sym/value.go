package sym

import (
	"fmt"
	"go/types"
	"strconv"
	"strings"

	"golang.org/x/tools/go/ssa"
)

// Value is an interpreter value:
//
//	*Term      integers and booleans (constant or symbolic)
//	float64    floating point (concrete only); float32 is stored as float64 rounded
//	*StrV      strings (concrete length, bytes possibly symbolic)
//	Pointer    pointers
//	SliceV     slices (concrete shape)
//	ArrayV     arrays (value semantics: copied on load/store)
//	StructV    structs (value semantics)
//	IfaceV     interfaces
//	*MapV      maps
//	*ChanV     channels
//	*Closure   closures;  *ssa.Function plain functions;  *ssa.Builtin builtins
//	TupleV     multiple results
//	*Opaque    a value the engine could not compute (error only if used)
type Value interface{}

type StrV struct {
	S   string  // valid when Sym == nil
	Sym []*Term // byte terms (width 8) when any byte is symbolic
}

type Pointer struct {
	Slot *Value
	Sym  *symRef
}

// symRef is a read-only reference into an array at a symbolic index.
type symRef struct {
	Arr []Value
	Idx *Term // 64-bit
	Cands []int // when non-nil: the only indices Idx can take; stores are allowed (weak update)
}

type SliceV struct {
	Data []Value // Go slice; len/cap are the slice's len/cap
}

type ArrayV []Value
type StructV []Value
type TupleV []Value

type IfaceV struct {
	T types.Type // nil => nil interface
	V Value
}

type Closure struct {
	Fn  *ssa.Function
	Env []Value
}

type Opaque struct{ Why string }

// HostFn is a function value implemented by the engine (e.g. the element swapper handed to the real sort code).
type HostFn struct {
	Name string
	F    func(ip *Interp, args []Value) Value
}

type mapEntry struct {
	key Value
	val Value
}

type MapV struct {
	entries []*mapEntry
	index   map[string]int // canonical concrete key -> entry index; nil when a symbolic key is present
	allConc bool
}

type ChanV struct {
	buf    []Value
	cap    int
	closed bool
	elem   types.Type
	items  []*chanItem
	// happens-before bookkeeping (race.go)
	sends   int
	recvVCs []vclock
	closeVC vclock
}

// HostObj wraps host-side objects used by intrinsics (scanner, readers, buffers, waitgroups).
type HostObj struct {
	Kind string
	Data []Value // byte terms for readers / buffers
	Pos  int
	Tok  []Value
	Err  Value
	N    int
	Aux  Value
}

func mkStr(s string) *StrV { return &StrV{S: s} }

func (s *StrV) Len() int {
	if s.Sym != nil {
		return len(s.Sym)
	}
	return len(s.S)
}

func (s *StrV) IsConc() bool { return s.Sym == nil }

func (ip *Interp) strBytes(s *StrV) []*Term {
	if s.Sym != nil {
		return s.Sym
	}
	r := make([]*Term, len(s.S))
	for i := 0; i < len(s.S); i++ {
		r[i] = ip.p.T.Const(8, uint64(s.S[i]))
	}
	return r
}

func strFromTerms(ts []*Term) *StrV {
	all := true
	for _, t := range ts {
		if !t.IsConst() {
			all = false
			break
		}
	}
	if all {
		b := make([]byte, len(ts))
		for i, t := range ts {
			b[i] = byte(t.C)
		}
		return &StrV{S: string(b)}
	}
	cp := make([]*Term, len(ts))
	copy(cp, ts)
	return &StrV{Sym: cp}
}

// zero returns the zero value of type t.
func (ip *Interp) zero(t types.Type) Value {
	switch t := t.(type) {
	case *types.Basic:
		if t.Kind() == types.UntypedNil {
			panic("untyped nil has no zero value")
		}
		if t.Info()&types.IsUntyped != 0 {
			t = types.Default(t).(*types.Basic)
		}
		switch {
		case t.Info()&types.IsBoolean != 0:
			return ip.p.T.False
		case t.Info()&types.IsInteger != 0:
			return ip.p.T.Const(intWidth(t), 0)
		case t.Info()&types.IsFloat != 0:
			return float64(0)
		case t.Info()&types.IsString != 0:
			return mkStr("")
		case t.Kind() == types.UnsafePointer:
			return Pointer{}
		}
		panic(engineError{"zero: unsupported basic type " + t.String()})
	case *types.Pointer:
		return Pointer{}
	case *types.Array:
		a := make(ArrayV, t.Len())
		for i := range a {
			a[i] = ip.zero(t.Elem())
		}
		return a
	case *types.Named:
		return ip.zero(t.Underlying())
	case *types.Alias:
		return ip.zero(types.Unalias(t))
	case *types.Interface:
		return IfaceV{}
	case *types.Slice:
		return SliceV{}
	case *types.Struct:
		s := make(StructV, t.NumFields())
		for i := range s {
			s[i] = ip.zero(t.Field(i).Type())
		}
		return s
	case *types.Tuple:
		if t.Len() == 1 {
			return ip.zero(t.At(0).Type())
		}
		s := make(TupleV, t.Len())
		for i := range s {
			s[i] = ip.zero(t.At(i).Type())
		}
		return s
	case *types.Chan:
		return (*ChanV)(nil)
	case *types.Map:
		return (*MapV)(nil)
	case *types.Signature:
		return (*ssa.Function)(nil)
	case *types.TypeParam:
		panic(engineError{"zero: type parameter (generics not instantiated)"})
	}
	panic(engineError{fmt.Sprintf("zero: unsupported type %T", t)})
}

func intWidth(t *types.Basic) int {
	switch t.Kind() {
	case types.Int8, types.Uint8:
		return 8
	case types.Int16, types.Uint16:
		return 16
	case types.Int32, types.Uint32:
		return 32
	case types.Int, types.Int64, types.Uint, types.Uint64, types.Uintptr:
		return 64
	case types.UntypedInt, types.UntypedRune:
		return 64
	}
	panic(engineError{"intWidth: " + t.String()})
}

func isSigned(t types.Type) bool {
	b, ok := t.Underlying().(*types.Basic)
	if !ok {
		return false
	}
	return b.Info()&types.IsUnsigned == 0
}

// copyVal makes a copy of aggregate values (arrays, structs); others are shared.
func copyVal(v Value) Value {
	switch v := v.(type) {
	case ArrayV:
		a := make(ArrayV, len(v))
		for i := range v {
			a[i] = copyVal(v[i])
		}
		return a
	case StructV:
		a := make(StructV, len(v))
		for i := range v {
			a[i] = copyVal(v[i])
		}
		return a
	}
	return v
}

// concKey returns a canonical string for a fully concrete, hashable value; ok=false if symbolic.
func concKey(v Value) (string, bool) {
	switch v := v.(type) {
	case *Term:
		if !v.IsConst() {
			return "", false
		}
		return "i" + strconv.Itoa(v.W) + ":" + strconv.FormatUint(v.C, 10), true
	case float64:
		return "f" + strconv.FormatFloat(v, 'g', -1, 64), true
	case *StrV:
		if !v.IsConc() {
			return "", false
		}
		return "s" + strconv.Quote(v.S), true
	case StructV:
		var sb strings.Builder
		sb.WriteString("{")
		for _, f := range v {
			k, ok := concKey(f)
			if !ok {
				return "", false
			}
			sb.WriteString(k)
			sb.WriteByte(';')
		}
		sb.WriteString("}")
		return sb.String(), true
	case ArrayV:
		var sb strings.Builder
		sb.WriteString("[")
		for _, f := range v {
			k, ok := concKey(f)
			if !ok {
				return "", false
			}
			sb.WriteString(k)
			sb.WriteByte(';')
		}
		sb.WriteString("]")
		return sb.String(), true
	case IfaceV:
		if v.T == nil {
			return "nil", true
		}
		k, ok := concKey(v.V)
		return "I(" + v.T.String() + ")" + k, ok
	case Pointer:
		return fmt.Sprintf("p%p", v.Slot), true
	}
	return "", false
}

// describe renders a value for observations / samples.
func describe(v Value) string {
	switch v := v.(type) {
	case nil:
		return "<nil>"
	case *Term:
		if v.IsConst() {
			if v.W == 0 {
				return strconv.FormatBool(v.C == 1)
			}
			return strconv.FormatUint(v.C, 10)
		}
		return v.String()
	case float64:
		return strconv.FormatFloat(v, 'g', -1, 64)
	case *StrV:
		if v.IsConc() {
			return strconv.Quote(v.S)
		}
		parts := make([]string, len(v.Sym))
		for i, t := range v.Sym {
			if t.IsConst() {
				parts[i] = string(rune(t.C))
			} else {
				parts[i] = "<" + t.String() + ">"
			}
		}
		return "\"" + strings.Join(parts, "") + "\""
	case SliceV:
		parts := make([]string, len(v.Data))
		for i, e := range v.Data {
			parts[i] = describe(e)
		}
		return "[" + strings.Join(parts, " ") + "]"
	case ArrayV:
		if len(v) > 16 {
			return fmt.Sprintf("[%d]array", len(v))
		}
		parts := make([]string, len(v))
		for i, e := range v {
			parts[i] = describe(e)
		}
		return "[" + strings.Join(parts, " ") + "]"
	case StructV:
		parts := make([]string, len(v))
		for i, e := range v {
			parts[i] = describe(e)
		}
		return "{" + strings.Join(parts, " ") + "}"
	case TupleV:
		parts := make([]string, len(v))
		for i, e := range v {
			parts[i] = describe(e)
		}
		return "(" + strings.Join(parts, ", ") + ")"
	case IfaceV:
		if v.T == nil {
			return "nil"
		}
		return v.T.String() + ":" + describe(v.V)
	case Pointer:
		if v.Slot == nil && v.Sym == nil {
			return "nil"
		}
		return "&…"
	case *Opaque:
		return "opaque(" + v.Why + ")"
	}
	return fmt.Sprintf("%T", v)
}
