package sym

import (
	"fmt"
	"os"
	"sort"
	"go/constant"
	"go/token"
	"go/types"
	"math"
	"strings"
	"sync"

	"golang.org/x/tools/go/ssa"
)

// Program is the loaded SSA program plus engine-wide caches (shared by all paths).
type Program struct {
	Prog     *ssa.Program
	Fset     *token.FileSet
	RepoDir  string
	finfo    sync.Map // *ssa.Function -> *funcInfo
	buildMu  sync.Mutex
	built    map[*ssa.Package]bool
	initMu   sync.Mutex
	initDone map[*ssa.Package]int // 0 none, 1 running, 2 done
	initGlob map[*ssa.Global]*Value
	initT    *TermCtx
	NumCPU   int
	RepoPkgPrefix string
}

type funcInfo struct {
	idx   map[ssa.Value]int
	n     int
	descr string
}

func (pr *Program) info(fn *ssa.Function) *funcInfo {
	if v, ok := pr.finfo.Load(fn); ok {
		return v.(*funcInfo)
	}
	pr.ensureBuilt(fn)
	fi := &funcInfo{idx: map[ssa.Value]int{}}
	n := 0
	for _, p := range fn.Params {
		fi.idx[p] = n
		n++
	}
	for _, p := range fn.FreeVars {
		fi.idx[p] = n
		n++
	}
	for _, b := range fn.Blocks {
		for _, in := range b.Instrs {
			if v, ok := in.(ssa.Value); ok {
				fi.idx[v] = n
				n++
			}
		}
	}
	fi.n = n
	pos := pr.Fset.Position(fn.Pos())
	fi.descr = fmt.Sprintf("%s (%s:%d)", fn.String(), shortPath(pos.Filename), pos.Line)
	v, _ := pr.finfo.LoadOrStore(fn, fi)
	return v.(*funcInfo)
}

func shortPath(p string) string {
	if i := strings.Index(p, "/pkg/mod/"); i >= 0 {
		return p[i+9:]
	}
	if i := strings.Index(p, "/go/src/"); i >= 0 {
		return "GOROOT/" + p[i+8:]
	}
	return p
}

func (pr *Program) ensureBuilt(fn *ssa.Function) {
	pkg := fn.Package()
	if pkg == nil {
		if fn.Origin() != nil {
			pkg = fn.Origin().Package()
		}
		if pkg == nil && fn.Parent() != nil {
			pkg = fn.Parent().Package()
		}
	}
	if pkg == nil {
		return
	}
	pr.buildMu.Lock()
	if !pr.built[pkg] {
		pkg.Build()
		pr.built[pkg] = true
	}
	pr.buildMu.Unlock()
}

// Interp interprets SSA for one path.
type Interp struct {
	pr      *Program
	p       *PathCtx
	globals map[*ssa.Global]*Value
	depth   int
	initMode bool
	stubs   map[string]*ssa.Function
	funcs   map[string]bool
	intr    map[string]bool
	out     []Value // scratch
	writes  int
	mapPerm bool
	sch     *sched
	numCPU  int
	allowCrash bool
	stdout  []*Term
	stdoutIsFile bool // os.Stdout stands for a regular file (size limit applies)
	fsizeLimit   int
	fsizeLimitOn bool
	vfs     map[string]*HostObj
	stdin   []Value
	curFn   *ssa.Function
	curInstr ssa.Instruction
	stack   []string
	copier  *deepCopier
	race    *raceState
}

type deferred struct {
	fn   Value
	args []Value
}

type frame struct {
	ip     *Interp
	fn     *ssa.Function
	fi     *funcInfo
	env    []Value
	block  *ssa.BasicBlock
	prev   *ssa.BasicBlock
	defers []deferred
	result Value
}

// targetPanic is a Go-level panic in the interpreted program.
type targetPanic struct {
	msg string
}

func (ip *Interp) goPanic(format string, a ...interface{}) {
	panic(targetPanic{fmt.Sprintf(format, a...)})
}

func unsupported(format string, a ...interface{}) {
	panic(engineError{"unsupported: " + fmt.Sprintf(format, a...)})
}

func (fr *frame) get(v ssa.Value) Value {
	switch v := v.(type) {
	case *ssa.Const:
		return fr.ip.constValue(v)
	case *ssa.Global:
		return Pointer{Slot: fr.ip.global(v)}
	case *ssa.Function:
		return v
	case *ssa.Builtin:
		return v
	}
	i, ok := fr.fi.idx[v]
	if !ok {
		panic(engineError{fmt.Sprintf("get: no slot for %T %s in %s", v, v.Name(), fr.fn)})
	}
	return fr.env[i]
}

func (fr *frame) set(v ssa.Value, x Value) {
	fr.env[fr.fi.idx[v]] = x
}

func (ip *Interp) constValue(c *ssa.Const) Value {
	t := c.Type()
	if c.Value == nil {
		return ip.zero(t)
	}
	switch u := t.Underlying().(type) {
	case *types.Basic:
		switch {
		case u.Info()&types.IsBoolean != 0:
			return ip.p.T.Bool(constant.BoolVal(c.Value))
		case u.Info()&types.IsInteger != 0:
			w := intWidth(u)
			if u.Info()&types.IsUnsigned != 0 {
				return ip.p.T.Const(w, c.Uint64())
			}
			return ip.p.T.Const(w, uint64(c.Int64()))
		case u.Info()&types.IsFloat != 0:
			f := c.Float64()
			if u.Kind() == types.Float32 {
				return float64(float32(f))
			}
			return f
		case u.Info()&types.IsString != 0:
			if c.Value.Kind() == constant.String {
				return mkStr(constant.StringVal(c.Value))
			}
			return mkStr(string(rune(c.Int64())))
		}
	}
	unsupported("constant of type %s", t)
	return nil
}

// global returns the slot of a package-level variable, initialising its package on first use.
func (ip *Interp) global(g *ssa.Global) *Value {
	if ip.initMode {
		return ip.pr.initGlobalLocked(g) // the running initialiser already holds initMu
	}
	if s, ok := ip.globals[g]; ok {
		return s
	}
	src := ip.pr.initGlobal(g)
	// one copier per path: pointers from one global into another (flag sets pointing at option
	// variables, for instance) must keep pointing at this path's copy of the other global
	if ip.copier == nil {
		ip.copier = &deepCopier{ip: ip, slots: map[*Value]*Value{}, backs: map[*Value][]Value{}, maps: map[*MapV]*MapV{}}
	}
	cp := ip.copier
	if ns, ok := cp.slots[src]; ok {
		ip.globals[g] = ns
		return ns
	}
	// register the root first so self references resolve
	ns := new(Value)
	cp.slots[src] = ns
	ip.globals[g] = ns
	*ns = cp.copy(*src)
	return ns
}

type deepCopier struct {
	ip    *Interp
	slots map[*Value]*Value
	backs map[*Value][]Value
	maps  map[*MapV]*MapV
}

func (d *deepCopier) copy(v Value) Value {
	switch v := v.(type) {
	case *Term:
		if !v.IsConst() {
			panic(engineError{"symbolic term in package initialiser"})
		}
		return d.ip.p.T.Const(v.W, v.C)
	case ArrayV:
		a := make(ArrayV, len(v))
		for i := range v {
			d.slots[&v[i]] = &a[i] // pointers to elements keep pointing into the copy
		}
		for i := range v {
			a[i] = d.copy(v[i])
		}
		return a
	case StructV:
		a := make(StructV, len(v))
		for i := range v {
			d.slots[&v[i]] = &a[i] // pointers to fields keep pointing into the copy
		}
		for i := range v {
			a[i] = d.copy(v[i])
		}
		return a
	case TupleV:
		a := make(TupleV, len(v))
		for i := range v {
			a[i] = d.copy(v[i])
		}
		return a
	case SliceV:
		if v.Data == nil {
			return v
		}
		full := v.Data[:cap(v.Data)]
		if len(full) == 0 {
			return SliceV{Data: make([]Value, 0)}
		}
		key := &full[0]
		nb, ok := d.backs[key]
		if !ok {
			nb = make([]Value, len(full))
			d.backs[key] = nb
			for i := range full {
				nb[i] = d.copy(full[i])
			}
		}
		return SliceV{Data: nb[:len(v.Data)]}
	case Pointer:
		if v.Slot == nil {
			return v
		}
		if ns, ok := d.slots[v.Slot]; ok {
			return Pointer{Slot: ns}
		}
		ns := new(Value)
		d.slots[v.Slot] = ns
		*ns = d.copy(*v.Slot)
		return Pointer{Slot: ns}
	case IfaceV:
		if v.T == nil {
			return v
		}
		return IfaceV{T: v.T, V: d.copy(v.V)}
	case *MapV:
		if v == nil {
			return v
		}
		if nm, ok := d.maps[v]; ok {
			return nm
		}
		nm := &MapV{allConc: v.allConc}
		d.maps[v] = nm
		if v.index != nil {
			nm.index = make(map[string]int, len(v.index))
			for k, i := range v.index {
				nm.index[k] = i
			}
		}
		nm.entries = make([]*mapEntry, len(v.entries))
		for i, e := range v.entries {
			nm.entries[i] = &mapEntry{key: d.copy(e.key), val: d.copy(e.val)}
		}
		return nm
	case *Closure:
		env := make([]Value, len(v.Env))
		for i := range v.Env {
			env[i] = d.copy(v.Env[i])
		}
		return &Closure{Fn: v.Fn, Env: env}
	}
	return v
}

func (pr *Program) initGlobal(g *ssa.Global) *Value {
	pr.initMu.Lock()
	defer pr.initMu.Unlock()
	return pr.initGlobalLocked(g)
}

func (pr *Program) initGlobalLocked(g *ssa.Global) *Value {
	pkg := g.Package()
	if pr.initDone[pkg] == 0 {
		pr.runInit(pkg)
	}
	s, ok := pr.initGlob[g]
	if ok && pkg.Pkg.Path() == "os" && (g.Name() == "Stdout" || g.Name() == "Stderr" || g.Name() == "Stdin") {
		if _, isHost := (*s).(*HostObj); !isHost {
			*s = &HostObj{Kind: "os." + g.Name()}
		}
	}
	if !ok {
		s = new(Value)
		ip := pr.initInterp()
		*s = ip.zero(deref(g.Type()))
		pr.initGlob[g] = s
	}
	return s
}

func (pr *Program) initInterp() *Interp {
	if pr.initT == nil {
		pr.initT = NewTermCtx()
	}
	p := &PathCtx{T: pr.initT, concrete: true, model: map[string]uint64{}, memo: map[*Term]uint64{}, known: map[*Term]bool{}, varSet: map[string]*Term{}, assertReach: map[string]int{}, maxSteps: 50_000_000}
	return &Interp{pr: pr, p: p, initMode: true, globals: nil, funcs: map[string]bool{}, intr: map[string]bool{}}
}

// runInit interprets a package initialiser once, tolerantly. Caller holds initMu.
func (pr *Program) runInit(pkg *ssa.Package) {
	pr.initDone[pkg] = 1
	pr.buildMu.Lock()
	if !pr.built[pkg] {
		pkg.Build()
		pr.built[pkg] = true
	}
	pr.buildMu.Unlock()
	// zero all globals of the package first
	ip := pr.initInterp()
	for _, m := range pkg.Members {
		if g, ok := m.(*ssa.Global); ok {
			if _, ok := pr.initGlob[g]; !ok {
				s := new(Value)
				func() {
					defer func() {
						if r := recover(); r != nil {
							*s = &Opaque{Why: fmt.Sprint(r)}
						}
					}()
					*s = ip.zero(deref(g.Type()))
				}()
				pr.initGlob[g] = s
			}
		}
	}
	initFn := pkg.Func("init")
	if initFn != nil && len(initFn.Blocks) > 0 {
		func() {
			defer func() {
				if r := recover(); r != nil {
					// tolerated: remaining globals keep their zero/partial values
					if os.Getenv("SYMGO_DEBUG_INIT") != "" {
						fmt.Fprintf(os.Stderr, "init of %s aborted: %v\n", pkg.Pkg.Path(), r)
					}
				}
			}()
			ip.callFunction(initFn, nil)
		}()
	}
	pr.initDone[pkg] = 2
}

func deref(t types.Type) types.Type {
	if p, ok := t.Underlying().(*types.Pointer); ok {
		return p.Elem()
	}
	panic(engineError{"deref of non-pointer " + t.String()})
}

var traceFn = os.Getenv("SYMGO_TRACE_FN")

const maxCallDepth = 400

// callFunction runs fn with args and returns its result.
func (ip *Interp) callFunction(fn *ssa.Function, args []Value) Value {
	if fn == nil {
		ip.goPanic("call of nil function")
	}
	name := fn.String()
	if !ip.initMode {
		if st, ok := ip.stubs[name]; ok {
			fn = st
			name = fn.String()
		}
	}
	if h, ok := intrinsics[name]; ok {
		ip.intr[name] = true
		if ip.race != nil {
			ip.raceIntrinsicArgs(name, args)
		}
		return h(ip, fn, args)
	}
	if h := ip.harnessAPI(fn); h != nil {
		return h(ip, fn, args)
	}
	if ip.initMode && *ip.depthPtr() > 0 && fn.Name() == "init" && fn.Signature.Recv() == nil && len(args) == 0 && fn.Pkg != nil && fn == fn.Pkg.Func("init") {
		// dependency initialisers run lazily, on first access to their globals
		return nil
	}
	fi := ip.pr.info(fn)
	if len(fn.Blocks) == 0 {
		unsupported("call to function without body: %s", name)
	}
	dp := ip.depthPtr()
	*dp++
	if *dp > maxCallDepth {
		panic(pathEnd{"budget", "call depth exceeded in " + name})
	}
	defer func() { *dp-- }()
	ip.funcs[fi.descr] = true
	nstack := len(ip.stack)
	if debugStack {
		ip.stack = append(ip.stack, name)
	}
	fr := &frame{ip: ip, fn: fn, fi: fi, env: make([]Value, fi.n)}
	for i, p := range fn.Params {
		fr.env[fi.idx[p]] = args[i]
	}
	for _, l := range fn.Locals {
		slot := new(Value)
		fr.env[fi.idx[l]] = Pointer{Slot: slot}
	}
	fr.block = fn.Blocks[0]
	fr.run()
	if debugStack {
		ip.stack = ip.stack[:nstack]
	}
	return fr.result
}

var debugStack = os.Getenv("SYMGO_STACK") != ""

func (ip *Interp) callClosure(c *Closure, args []Value) Value {
	fn := c.Fn
	fi := ip.pr.info(fn)
	dp := ip.depthPtr()
	*dp++
	if *dp > maxCallDepth {
		panic(pathEnd{"budget", "call depth exceeded"})
	}
	defer func() { *dp-- }()
	ip.funcs[fi.descr] = true
	nstack := len(ip.stack)
	if debugStack {
		ip.stack = append(ip.stack, fn.String())
	}
	fr := &frame{ip: ip, fn: fn, fi: fi, env: make([]Value, fi.n)}
	for i, p := range fn.Params {
		fr.env[fi.idx[p]] = args[i]
	}
	for i, fv := range fn.FreeVars {
		fr.env[fi.idx[fv]] = c.Env[i]
	}
	for _, l := range fn.Locals {
		slot := new(Value)
		fr.env[fi.idx[l]] = Pointer{Slot: slot}
	}
	fr.block = fn.Blocks[0]
	fr.run()
	if debugStack {
		ip.stack = ip.stack[:nstack]
	}
	return fr.result
}

func (ip *Interp) depthPtr() *int {
	if ip.sch != nil && ip.sch.cur != nil {
		return &ip.sch.cur.depth
	}
	return &ip.depth
}

// call dispatches on the dynamic function value.
func (ip *Interp) call(fn Value, args []Value, site ssa.Instruction) Value {
	switch f := fn.(type) {
	case *ssa.Function:
		return ip.callFunction(f, args)
	case *Closure:
		if h, ok := intrinsics[f.Fn.String()]; ok {
			return h(ip, f.Fn, append(append([]Value{}, f.Env...), args...))
		}
		return ip.callClosure(f, args)
	case *ssa.Builtin:
		return ip.callBuiltin(f, args, site)
	case *HostFn:
		return f.F(ip, args)
	case *Opaque:
		unsupported("call of opaque function value (%s)", f.Why)
	}
	panic(engineError{fmt.Sprintf("call: unexpected function value %T", fn)})
}

func (fr *frame) run() {
	ip := fr.ip
	p := ip.p
	for fr.block != nil {
		b := fr.block
		// phis first, evaluated in parallel
		nphi := 0
		for _, in := range b.Instrs {
			if _, ok := in.(*ssa.Phi); ok {
				nphi++
			} else {
				break
			}
		}
		if nphi > 0 {
			pi := -1
			for i, pred := range b.Preds {
				if pred == fr.prev {
					pi = i
					break
				}
			}
			vals := make([]Value, nphi)
			for i := 0; i < nphi; i++ {
				vals[i] = fr.get(b.Instrs[i].(*ssa.Phi).Edges[pi])
			}
			for i := 0; i < nphi; i++ {
				fr.set(b.Instrs[i].(*ssa.Phi), vals[i])
			}
		}
		ip.curFn = fr.fn
		p.steps += int64(len(b.Instrs))
		if p.steps > p.maxSteps {
			panic(pathEnd{"budget", "step budget exceeded"})
		}
		next := false
		for _, in := range b.Instrs[nphi:] {
			if traceFn != "" && fr.fn.Name() == traceFn {
				fmt.Fprintf(os.Stderr, "  [%s b%d] %s", fr.fn.Name(), b.Index, in)
				if v, ok := in.(ssa.Value); ok {
					defer func(v ssa.Value) {}(v)
				}
				fmt.Fprintln(os.Stderr)
			}
			ip.curInstr = in
			ip.curFn = fr.fn
			if fr.exec(in) {
				next = true
				break
			}
			if traceFn != "" && fr.fn.Name() == traceFn {
				if v, ok := in.(ssa.Value); ok {
					fmt.Fprintf(os.Stderr, "      %s = %s\n", v.Name(), describe(fr.env[fr.fi.idx[v]]))
				}
			}
		}
		if !next {
			panic(engineError{"block fell through: " + fr.fn.String()})
		}
	}
}

// exec runs one instruction; returns true if control was transferred.
func (fr *frame) exec(instr ssa.Instruction) bool {
	ip := fr.ip
	switch in := instr.(type) {
	case *ssa.DebugRef:
	case *ssa.UnOp:
		fr.set(in, ip.unop(in, fr.get(in.X)))
	case *ssa.BinOp:
		fr.set(in, ip.binop(in.Op, in.X.Type(), fr.get(in.X), fr.get(in.Y), in))
	case *ssa.Call:
		fn, args := fr.prepareCall(&in.Call)
		if ip.initMode && *ip.depthPtr() <= 1 {
			// tolerant: a failing initialiser call yields an opaque value
			var res Value
			func() {
				defer func() {
					if r := recover(); r != nil {
						res = &Opaque{Why: fmt.Sprint(r)}
						if os.Getenv("SYMGO_DEBUG_INIT") != "" {
							fmt.Fprintf(os.Stderr, "init call %s in %s -> opaque: %v\n", in.Call.Value, fr.fn, r)
						}
					}
				}()
				res = ip.call(fn, args, in)
			}()
			fr.set(in, res)
		} else {
			fr.set(in, ip.call(fn, args, in))
		}
	case *ssa.ChangeInterface:
		fr.set(in, fr.get(in.X))
	case *ssa.ChangeType:
		fr.set(in, fr.get(in.X))
	case *ssa.Convert:
		fr.set(in, ip.conv(in.Type(), in.X.Type(), fr.get(in.X)))
	case *ssa.MultiConvert:
		fr.set(in, ip.conv(in.Type(), in.X.Type(), fr.get(in.X)))
	case *ssa.SliceToArrayPointer:
		unsupported("SliceToArrayPointer")
	case *ssa.MakeInterface:
		fr.set(in, IfaceV{T: in.X.Type(), V: fr.get(in.X)})
	case *ssa.Extract:
		fr.set(in, fr.get(in.Tuple).(TupleV)[in.Index])
	case *ssa.Slice:
		fr.set(in, ip.sliceOp(in, fr.get(in.X), fr.getOpt(in.Low), fr.getOpt(in.High), fr.getOpt(in.Max)))
	case *ssa.Return:
		switch len(in.Results) {
		case 0:
		case 1:
			fr.result = fr.get(in.Results[0])
		default:
			res := make(TupleV, len(in.Results))
			for i, r := range in.Results {
				res[i] = fr.get(r)
			}
			fr.result = res
		}
		fr.block = nil
		return true
	case *ssa.RunDefers:
		for i := len(fr.defers) - 1; i >= 0; i-- {
			d := fr.defers[i]
			ip.call(d.fn, d.args, in)
		}
		fr.defers = nil
	case *ssa.Panic:
		v := fr.get(in.X)
		ip.goPanic("panic: %s", describe(v))
	case *ssa.Send:
		ip.chanSend(fr.get(in.Chan), fr.get(in.X))
	case *ssa.Store:
		ip.store(fr.get(in.Addr), fr.get(in.Val))
	case *ssa.If:
		c := fr.get(in.Cond).(*Term)
		succ := 1
		if ip.p.Branch(c) {
			succ = 0
		}
		fr.prev, fr.block = fr.block, fr.block.Succs[succ]
		return true
	case *ssa.Jump:
		fr.prev, fr.block = fr.block, fr.block.Succs[0]
		return true
	case *ssa.Defer:
		fn, args := fr.prepareCall(&in.Call)
		fr.defers = append(fr.defers, deferred{fn, args})
	case *ssa.Go:
		fn, args := fr.prepareCall(&in.Call)
		ip.spawn(fn, args, fr.fn.String())
	case *ssa.MakeChan:
		n := int(ip.concInt(fr.get(in.Size)))
		fr.set(in, &ChanV{cap: n, elem: in.Type().Underlying().(*types.Chan).Elem()})
	case *ssa.Alloc:
		t := deref(in.Type())
		if in.Heap {
			slot := new(Value)
			*slot = ip.zero(t)
			fr.set(in, Pointer{Slot: slot})
		} else {
			p := fr.env[fr.fi.idx[in]].(Pointer)
			*p.Slot = ip.zero(t)
		}
	case *ssa.MakeSlice:
		ln := int(ip.concInt(fr.get(in.Len)))
		cp := int(ip.concInt(fr.get(in.Cap)))
		if ln < 0 || cp < ln {
			ip.goPanic("makeslice: len out of range")
		}
		if cp > 1<<20 {
			panic(pathEnd{"budget", "makeslice too large"})
		}
		elt := in.Type().Underlying().(*types.Slice).Elem()
		data := make([]Value, cp)
		for i := range data {
			data[i] = ip.zero(elt)
		}
		fr.set(in, SliceV{Data: data[:ln]})
	case *ssa.MakeMap:
		fr.set(in, &MapV{index: map[string]int{}, allConc: true})
	case *ssa.Range:
		fr.set(in, ip.rangeIter(fr.get(in.X), in.X.Type()))
	case *ssa.Next:
		fr.set(in, ip.iterNext(fr.get(in.Iter).(*iterV), in))
	case *ssa.FieldAddr:
		p := fr.get(in.X).(Pointer)
		if p.Slot == nil {
			ip.goPanic("nil pointer dereference (field %d)", in.Field)
		}
		s := (*p.Slot).(StructV)
		fr.set(in, Pointer{Slot: &s[in.Field]})
	case *ssa.Field:
		fr.set(in, copyVal(fr.get(in.X).(StructV)[in.Field]))
	case *ssa.IndexAddr:
		fr.set(in, ip.indexAddr(in, fr.get(in.X), fr.get(in.Index)))
	case *ssa.Index:
		fr.set(in, ip.indexVal(fr.get(in.X), fr.get(in.Index), in.X.Type()))
	case *ssa.Lookup:
		fr.set(in, ip.lookup(in, fr.get(in.X), fr.get(in.Index)))
	case *ssa.MapUpdate:
		ip.mapUpdate(fr.get(in.Map), fr.get(in.Key), fr.get(in.Value))
	case *ssa.TypeAssert:
		fr.set(in, ip.typeAssert(in, fr.get(in.X).(IfaceV)))
	case *ssa.MakeClosure:
		env := make([]Value, len(in.Bindings))
		for i, b := range in.Bindings {
			env[i] = fr.get(b)
		}
		fr.set(in, &Closure{Fn: in.Fn.(*ssa.Function), Env: env})
	case *ssa.Select:
		fr.set(in, ip.selectOp(in, fr))
	default:
		unsupported("instruction %T in %s", instr, fr.fn)
	}
	return false
}

func (fr *frame) getOpt(v ssa.Value) Value {
	if v == nil {
		return nil
	}
	return fr.get(v)
}

func (fr *frame) prepareCall(c *ssa.CallCommon) (Value, []Value) {
	ip := fr.ip
	v := fr.get(c.Value)
	var fn Value
	var args []Value
	if c.Method == nil {
		fn = v
	} else {
		recv, ok := v.(IfaceV)
		if !ok {
			if op, ok := v.(*Opaque); ok {
				unsupported("method call on opaque value (%s)", op.Why)
			}
			panic(engineError{fmt.Sprintf("invoke on %T", v)})
		}
		if recv.T == nil {
			ip.goPanic("nil pointer dereference: method %s invoked on nil interface", c.Method.Name())
		}
		f := ip.pr.Prog.LookupMethod(recv.T, c.Method.Pkg(), c.Method.Name())
		if f == nil {
			panic(engineError{fmt.Sprintf("method %s not found for %s", c.Method.Name(), recv.T)})
		}
		fn = f
		args = append(args, recv.V)
	}
	for _, a := range c.Args {
		args = append(args, fr.get(a))
	}
	return fn, args
}

// concInt returns the concrete value of an integer term, forking over feasible values if symbolic.
func (ip *Interp) concInt(v Value) int64 {
	t := v.(*Term)
	if t.IsConst() {
		return signExt(t.C, t.W)
	}
	u := ip.p.Concretize(t)
	return signExt(u, t.W)
}

func (ip *Interp) load(pv Value) Value {
	p, ok := pv.(Pointer)
	if !ok {
		if op, ok := pv.(*Opaque); ok {
			unsupported("load through opaque pointer (%s)", op.Why)
		}
		panic(engineError{fmt.Sprintf("load through %T", pv)})
	}
	if p.Sym != nil {
		if p.Sym.Cands != nil {
			// read over the candidate cells only
			T := ip.p.T
			c := p.Sym.Cands
			if ip.race != nil {
				for _, k := range c {
					ip.raceSlot(&p.Sym.Arr[k], false)
				}
			}
			res := p.Sym.Arr[c[len(c)-1]].(*Term)
			for i := len(c) - 2; i >= 0; i-- {
				res = T.Ite(T.Cmp(OpEq, p.Sym.Idx, T.Const(p.Sym.Idx.W, uint64(c[i]))), p.Sym.Arr[c[i]].(*Term), res)
			}
			return res
		}
		return ip.symRead(p.Sym.Arr, p.Sym.Idx)
	}
	if p.Slot == nil {
		ip.goPanic("nil pointer dereference")
	}
	if ip.race != nil {
		ip.raceSlot(p.Slot, false)
	}
	return copyVal(*p.Slot)
}

func (ip *Interp) store(pv Value, v Value) {
	p, ok := pv.(Pointer)
	if !ok {
		panic(engineError{fmt.Sprintf("store through %T", pv)})
	}
	if p.Sym != nil {
		// weak update: every candidate cell becomes ite(idx == k, v, old)
		if p.Sym.Cands == nil {
			panic(engineError{"store through read-only symbolic reference"})
		}
		T := ip.p.T
		nv := v.(*Term)
		for _, k := range p.Sym.Cands {
			if ip.race != nil {
				ip.raceSlot(&p.Sym.Arr[k], true)
			}
			old := p.Sym.Arr[k].(*Term)
			p.Sym.Arr[k] = T.Ite(T.Cmp(OpEq, p.Sym.Idx, T.Const(p.Sym.Idx.W, uint64(k))), nv, old)
		}
		return
	}
	if p.Slot == nil {
		ip.goPanic("nil pointer dereference (store)")
	}
	if ip.race != nil {
		ip.raceSlot(p.Slot, true)
	}
	assignInPlace(p.Slot, v)
}

// assignInPlace stores v into *dst. Aggregates are copied element-wise into the existing storage so
// that field/element addresses taken earlier stay valid (Go semantics of assigning to a variable).
func assignInPlace(dst *Value, v Value) {
	switch nv := v.(type) {
	case StructV:
		if old, ok := (*dst).(StructV); ok && len(old) == len(nv) {
			for i := range nv {
				assignInPlace(&old[i], nv[i])
			}
			return
		}
	case ArrayV:
		if old, ok := (*dst).(ArrayV); ok && len(old) == len(nv) {
			for i := range nv {
				assignInPlace(&old[i], nv[i])
			}
			return
		}
	}
	*dst = copyVal(v)
}

// symRead reads arr[idx] for a symbolic, in-range idx.
func (ip *Interp) symRead(arr []Value, idx *Term) Value {
	T := ip.p.T
	if len(arr) == 0 {
		panic(engineError{"symRead on empty array"})
	}
	switch e0 := arr[0].(type) {
	case *Term:
		allConst := true
		for _, e := range arr {
			if !e.(*Term).IsConst() {
				allConst = false
				break
			}
		}
		if allConst && e0.W > 0 {
			vals := make([]uint64, len(arr))
			for i, e := range arr {
				vals[i] = e.(*Term).C
			}
			return T.Table(vals, e0.W, idx)
		}
		res := arr[len(arr)-1].(*Term)
		for i := len(arr) - 2; i >= 0; i-- {
			res = T.Ite(T.Cmp(OpEq, idx, T.Const(idx.W, uint64(i))), arr[i].(*Term), res)
		}
		return res
	case *StrV:
		// group by length
		byLen := map[int][]int{}
		var lens []int
		for i, e := range arr {
			s, ok := e.(*StrV)
			if !ok {
				panic(engineError{"symRead: mixed array"})
			}
			l := s.Len()
			if _, ok := byLen[l]; !ok {
				lens = append(lens, l)
			}
			byLen[l] = append(byLen[l], i)
		}
		// pick the length class of idx by forking
		chosen := -1
		if len(lens) == 1 {
			chosen = lens[0]
		} else {
			// order classes by size (small classes first: cheaper conditions)
			for li := 0; li < len(lens)-1; li++ {
				l := lens[li]
				var cond *Term = T.False
				if len(byLen[l])*2 > len(arr) {
					// describe by complement
					cond = T.True
					for _, l2 := range lens {
						if l2 == l {
							continue
						}
						for _, i := range byLen[l2] {
							cond = T.And(cond, T.Not(T.Cmp(OpEq, idx, T.Const(idx.W, uint64(i)))))
						}
					}
				} else {
					for _, i := range byLen[l] {
						cond = T.Or(cond, T.Cmp(OpEq, idx, T.Const(idx.W, uint64(i))))
					}
				}
				if ip.p.Branch(cond) {
					chosen = l
					break
				}
			}
			if chosen == -1 {
				chosen = lens[len(lens)-1]
			}
		}
		if chosen == 0 {
			return mkStr("")
		}
		idxs := byLen[chosen]
		out := make([]*Term, chosen)
		for k := 0; k < chosen; k++ {
			// table over whole array for byte k (entries of other classes get 0)
			vals := make([]uint64, len(arr))
			allConst := true
			for _, i := range idxs {
				s := arr[i].(*StrV)
				if s.IsConc() {
					vals[i] = uint64(s.S[k])
				} else if s.Sym[k].IsConst() {
					vals[i] = s.Sym[k].C
				} else {
					allConst = false
				}
			}
			if allConst {
				out[k] = T.Table(vals, 8, idx)
			} else {
				var res *Term
				for j := len(idxs) - 1; j >= 0; j-- {
					b := ip.strBytes(arr[idxs[j]].(*StrV))[k]
					if res == nil {
						res = b
					} else {
						res = T.Ite(T.Cmp(OpEq, idx, T.Const(idx.W, uint64(idxs[j]))), b, res)
					}
				}
				out[k] = res
			}
		}
		return strFromTerms(out)
	}
	// general case: concretise the index
	i := ip.p.Concretize(idx)
	return copyVal(arr[i])
}

// boundsCheck makes sure 0 <= idx < n, forking a panic path if it may fail. idx is 64-bit.
func (ip *Interp) boundsCheck(idx *Term, n int, what string) {
	T := ip.p.T
	if idx.IsConst() {
		i := int64(idx.C)
		if i < 0 || i >= int64(n) {
			ip.goPanic("index out of range [%d] with length %d (%s)", i, n, what)
		}
		return
	}
	inr := T.Cmp(OpUlt, idx, T.Const(64, uint64(n)))
	if !ip.p.Branch(inr) {
		ip.goPanic("index out of range [symbolic] with length %d (%s)", n, what)
	}
}

func (ip *Interp) toIdx(v Value, t types.Type) *Term {
	x := v.(*Term)
	if x.W == 64 {
		return x
	}
	if isSigned(t) {
		return ip.p.T.Sext(x, 64)
	}
	return ip.p.T.Zext(x, 64)
}

// onlyLoads reports whether the address is used only by loads (and, if allowStores, stores through it).
func onlyLoads(in *ssa.IndexAddr, allowStores bool) bool {
	refs := in.Referrers()
	if refs == nil {
		return false
	}
	for _, r := range *refs {
		switch r := r.(type) {
		case *ssa.UnOp:
			if r.Op != token.MUL {
				return false
			}
		case *ssa.Store:
			if !allowStores || r.Addr != ssa.Value(in) || r.Val == ssa.Value(in) {
				return false
			}
		case *ssa.DebugRef:
		default:
			return false
		}
	}
	return true
}

func allTerms(arr []Value) bool {
	for _, e := range arr {
		if _, ok := e.(*Term); !ok {
			return false
		}
	}
	return true
}

// candidates lists the indices idx may take (cheaply): all values of a single-variable term,
// otherwise every index.
func (ip *Interp) candidates(idx *Term, n int) []int {
	if idx.sup != nil {
		seen := map[uint64]bool{}
		var out []int
		model := map[string]uint64{}
		for v := 0; v < 1<<uint(idx.sup.W); v++ {
			model[idx.sup.Name] = uint64(v)
			x := ip.p.T.Eval(idx, model, map[*Term]uint64{})
			if x < uint64(n) && !seen[x] {
				seen[x] = true
				out = append(out, int(x))
			}
		}
		sort.Ints(out)
		return out
	}
	out := make([]int, n)
	for i := range out {
		out[i] = i
	}
	return out
}

func (ip *Interp) indexAddr(in *ssa.IndexAddr, x Value, idxv Value) Value {
	idx := ip.toIdx(idxv, in.Index.Type())
	var arr []Value
	switch x := x.(type) {
	case SliceV:
		arr = x.Data
	case Pointer:
		if x.Slot == nil {
			ip.goPanic("nil pointer dereference (index)")
		}
		arr = (*x.Slot).(ArrayV)
	case *Opaque:
		unsupported("index of opaque (%s)", x.Why)
	default:
		panic(engineError{fmt.Sprintf("indexAddr on %T", x)})
	}
	ip.boundsCheck(idx, len(arr), "index")
	if idx.IsConst() {
		return Pointer{Slot: &arr[idx.C]}
	}
	if onlyLoads(in, false) {
		return Pointer{Sym: &symRef{Arr: arr, Idx: idx}}
	}
	if onlyLoads(in, true) && allTerms(arr) {
		if c := ip.candidates(idx, len(arr)); len(c) <= 64 {
			return Pointer{Sym: &symRef{Arr: arr, Idx: idx, Cands: c}}
		}
	}
	i := ip.p.Concretize(idx)
	return Pointer{Slot: &arr[i]}
}

func (ip *Interp) indexVal(x Value, idxv Value, xt types.Type) Value {
	idx := ip.toIdx(idxv, types.Typ[types.Int])
	switch x := x.(type) {
	case ArrayV:
		ip.boundsCheck(idx, len(x), "index")
		if idx.IsConst() {
			return copyVal(x[idx.C])
		}
		return ip.symRead(x, idx)
	case *StrV:
		return ip.strIndex(x, idx)
	}
	panic(engineError{fmt.Sprintf("index on %T", x)})
}

func (ip *Interp) strIndex(s *StrV, idx *Term) Value {
	ip.boundsCheck(idx, s.Len(), "string index")
	T := ip.p.T
	if idx.IsConst() {
		if s.IsConc() {
			return T.Const(8, uint64(s.S[idx.C]))
		}
		return s.Sym[idx.C]
	}
	bs := ip.strBytes(s)
	arr := make([]Value, len(bs))
	for i := range bs {
		arr[i] = bs[i]
	}
	return ip.symRead(arr, idx)
}

func (ip *Interp) sliceOp(in *ssa.Slice, x Value, lo, hi, max Value) Value {
	ci := func(v Value, def int) int {
		if v == nil {
			return def
		}
		return int(ip.concInt(v))
	}
	switch x := x.(type) {
	case *StrV:
		n := x.Len()
		l := ci(lo, 0)
		h := ci(hi, n)
		if l < 0 || h < l || h > n {
			ip.goPanic("slice bounds out of range [%d:%d] with length %d", l, h, n)
		}
		if x.IsConc() {
			return mkStr(x.S[l:h])
		}
		return strFromTerms(x.Sym[l:h])
	case SliceV:
		c := cap(x.Data)
		l := ci(lo, 0)
		h := ci(hi, len(x.Data))
		m := ci(max, c)
		if l < 0 || h < l || m < h || m > c {
			ip.goPanic("slice bounds out of range [%d:%d:%d] with capacity %d", l, h, m, c)
		}
		if x.Data == nil {
			return SliceV{}
		}
		return SliceV{Data: x.Data[l:h:m]}
	case Pointer:
		if x.Slot == nil {
			ip.goPanic("nil pointer dereference (slice of array)")
		}
		a := (*x.Slot).(ArrayV)
		c := len(a)
		l := ci(lo, 0)
		h := ci(hi, c)
		m := ci(max, c)
		if l < 0 || h < l || m < h || m > c {
			ip.goPanic("slice bounds out of range [%d:%d:%d] with capacity %d", l, h, m, c)
		}
		return SliceV{Data: []Value(a)[l:h:m]}
	}
	panic(engineError{fmt.Sprintf("slice of %T", x)})
}

func (ip *Interp) typeAssert(in *ssa.TypeAssert, x IfaceV) Value {
	var ok bool
	var v Value
	if itf, isI := in.AssertedType.Underlying().(*types.Interface); isI {
		if x.T != nil && types.Implements(x.T, itf) {
			ok = true
			v = x
		} else if x.T != nil {
			// pointer receiver method sets
			ms := ip.pr.Prog.MethodSets.MethodSet(x.T)
			ok = true
			for i := 0; i < itf.NumMethods(); i++ {
				m := itf.Method(i)
				if ms.Lookup(m.Pkg(), m.Name()) == nil {
					ok = false
					break
				}
			}
			if ok {
				v = x
			}
		}
	} else if x.T != nil && types.Identical(x.T, in.AssertedType) {
		ok = true
		v = x.V
	}
	if !ok {
		if !in.CommaOk {
			ip.goPanic("interface conversion: %v is not %s", x.T, in.AssertedType)
		}
		v = ip.zero(in.AssertedType)
	}
	if in.CommaOk {
		return TupleV{v, ip.p.T.Bool(ok)}
	}
	return v
}

var _ = math.MaxInt
