package sym

import (
	"fmt"
	"runtime/debug"
	"sort"
	"strings"
	"sync"
	"time"

	"golang.org/x/tools/go/ssa"
)

type RunConfig struct {
	Harness  string
	Workers  int
	Params   map[string]int
	MaxSteps int64
	Solver   string
	MaxPaths int
	Timeout  time.Duration
	Stubs    map[string]*ssa.Function
	// Concrete, when non-nil, runs the harness once on this assignment without a solver (selftest).
	Concrete map[string]uint64
	Trace    bool
	KnownMatch func(*Violation) string
}

type PathResult struct {
	End          string
	Msg          string
	Observations []string
}

// Explore runs every feasible path of the harness function within the configured budgets.
func (pr *Program) Explore(fn *ssa.Function, cfg RunConfig) *Explorer {
	ex := NewExplorer()
	ex.KnownMatch = cfg.KnownMatch
	ex.MaxPaths = cfg.MaxPaths
	if cfg.Timeout > 0 {
		ex.Deadline = time.Now().Add(cfg.Timeout)
	}
	if cfg.Workers <= 0 {
		cfg.Workers = 1
	}
	if cfg.MaxSteps == 0 {
		cfg.MaxSteps = 20_000_000
	}
	ex.queue = append(ex.queue, WorkItem{Model: map[string]uint64{}})
	var wg sync.WaitGroup
	for i := 0; i < cfg.Workers; i++ {
		wg.Add(1)
		go func() {
			defer wg.Done()
			s, err := NewSolver(cfg.Solver)
			if err != nil {
				ex.inconclusive("cannot start solver: " + err.Error())
				ex.mu.Lock()
				ex.stop = true
				ex.cond.Broadcast()
				ex.mu.Unlock()
				return
			}
			defer func() {
				ex.mu.Lock()
				ex.Stats.Queries += s.Queries
				ex.Stats.SolverTime += s.Time
				ex.Stats.SolverErrors += s.Errors
				ex.mu.Unlock()
				s.Close()
			}()
			n := 0
			for {
				item, ok := ex.pop()
				if !ok {
					return
				}
				n++
				if n%500 == 0 {
					// fresh process from time to time keeps solver memory bounded
					ex.mu.Lock()
					ex.Stats.Queries += s.Queries
					ex.Stats.SolverTime += s.Time
					ex.Stats.SolverErrors += s.Errors
					ex.mu.Unlock()
					s.Close()
					s, err = NewSolver(cfg.Solver)
					if err != nil {
						ex.inconclusive("cannot restart solver: " + err.Error())
						ex.done()
						return
					}
				}
				pr.runPath(ex, s, fn, cfg, item)
				ex.done()
				if !ex.Deadline.IsZero() && time.Now().After(ex.Deadline) {
					ex.inconclusive("time budget exhausted before all paths were explored")
					ex.mu.Lock()
					ex.stop = true
					ex.cond.Broadcast()
					ex.mu.Unlock()
					return
				}
			}
		}()
	}
	wg.Wait()
	ex.mu.Lock()
	if len(ex.queue) > 0 && !ex.stop {
		ex.Stats.Inconclusive = append(ex.Stats.Inconclusive, "work left in queue")
	}
	if ex.stop && len(ex.queue) > 0 {
		ex.Stats.Inconclusive = append(ex.Stats.Inconclusive, fmt.Sprintf("exploration stopped early with %d prefixes unexplored", len(ex.queue)))
	}
	ex.mu.Unlock()
	return ex
}

func (pr *Program) newPath(ex *Explorer, s *Solver, cfg RunConfig, item WorkItem) (*PathCtx, *Interp) {
	p := &PathCtx{T: NewTermCtx(), S: s, ex: ex, prefix: item.Prefix, known: map[*Term]bool{}, varSet: map[string]*Term{}, assertReach: map[string]int{}, maxSteps: cfg.MaxSteps, params: cfg.Params, harness: cfg.Harness}
	m := map[string]uint64{}
	for k, v := range item.Model {
		m[k] = v
	}
	p.setModel(m)
	ip := &Interp{pr: pr, p: p, globals: map[*ssa.Global]*Value{}, funcs: map[string]bool{}, intr: map[string]bool{}, stubs: cfg.Stubs}
	return p, ip
}

func (pr *Program) runPath(ex *Explorer, s *Solver, fn *ssa.Function, cfg RunConfig, item WorkItem) {
	p, ip := pr.newPath(ex, s, cfg, item)
	s.Send("(reset)\n")
	s.Preamble()
	end := pr.execute(p, ip, fn)
	p.flushQuiet()
	if cfg.Trace {
		fmt.Printf("TRACE path end=%s msg=%s decisions=%d obs=%v model=%s\n", end.End, end.Msg, len(p.dec), p.observations, modelString(p.model))
	}
	ex.mu.Lock()
	defer ex.mu.Unlock()
	st := ex.Stats
	st.Paths++
	st.PathsByEnd[end.End]++
	if p.reachedNontrivial || (len(p.dec) > 0 && p.trivial > 0) {
		st.Nontrivial++
	}
	st.Obligations += p.obligations
	st.Discharged += p.discharged
	st.TrivialObl += p.trivial
	st.Steps += p.steps
	st.Pruned += int64(p.pruned)
	if len(p.dec) > st.MaxDepth {
		st.MaxDepth = len(p.dec)
	}
	for k, v := range p.assertReach {
		st.AssertReach[k] += v
	}
	for k := range ip.funcs {
		st.FuncsEncoded[k] = true
	}
	for k := range ip.intr {
		st.Intrinsics[k] = true
	}
	for k := range p.seenAssume {
		st.Assumptions[k] = true
	}
	switch end.End {
	case "cut":
		st.Cuts++
	case "budget", "unsupported", "block", "engine":
		ex.addInconclusive(end.End + ": " + end.Msg)
		ex.engineFails++
		if ex.engineFails >= 5 && !ex.stop {
			ex.stop = true
			ex.cond.Broadcast()
		}
	}
	if end.End == "ok" && (p.obligations > 0 || p.trivial > 0) {
		if ex.WitMax == 0 {
			ex.WitMax = 10
		}
		m := map[string]uint64{}
		for _, v := range p.vars {
			m[v.Name] = p.model[v.Name]
		}
		ex.witSeen++
		if len(ex.witnesses) < ex.WitMax {
			ex.witnesses = append(ex.witnesses, m)
		} else {
			// deterministic reservoir
			k := (ex.witSeen * 2654435761) % uint64ToInt(ex.witSeen)
			if k < ex.WitMax {
				ex.witnesses[k] = m
			}
		}
	}
	if len(st.Samples) < 6 && p.obligations > 0 {
		st.Samples = append(st.Samples, p.sample(end))
	}
	if ex.MaxPaths > 0 && st.Paths >= ex.MaxPaths && !ex.stop {
		ex.stop = true
		ex.addInconclusive(fmt.Sprintf("path budget %d reached", ex.MaxPaths))
		ex.cond.Broadcast()
	}
}

func (p *PathCtx) flushQuiet() {
	p.buf.Reset()
}

func (p *PathCtx) sample(end PathResult) string {
	var pcs []string
	for i, c := range p.pc {
		if i >= 8 {
			pcs = append(pcs, fmt.Sprintf("…(+%d)", len(p.pc)-8))
			break
		}
		s := c.String()
		if len(s) > 160 {
			s = s[:160] + "…"
		}
		pcs = append(pcs, s)
	}
	m := map[string]uint64{}
	for _, v := range p.vars {
		m[v.Name] = p.model[v.Name]
	}
	return fmt.Sprintf("end=%s decisions=%d obligations=%d pc=[%s] witness={%s}", end.End, len(p.dec), p.obligations, strings.Join(pcs, " ∧ "), modelString(m))
}

// execute runs the harness on one path and classifies how it ended.
func (pr *Program) execute(p *PathCtx, ip *Interp, fn *ssa.Function) (res PathResult) {
	defer func() {
		r := recover()
		ip.shutdown()
		if r == nil {
			return
		}
		switch e := r.(type) {
		case pathEnd:
			res = PathResult{End: e.kind, Msg: e.msg}
			if e.kind == "deadlock" {
				if ip.allowCrash {
					res = PathResult{End: "crash", Msg: e.msg}
					return
				}
				p.reachedNontrivial = true
				p.obligations++
				p.assertReach["no-deadlock"]++
				p.violation("no-deadlock", "panic", e.msg, p.model)
			}
		case targetPanic:
			res = PathResult{End: "panic", Msg: e.msg}
			if ip.allowCrash {
				res = PathResult{End: "crash", Msg: e.msg}
				return
			}
			if !p.concrete && len(p.dec) < len(p.prefix) {
				res = PathResult{End: "engine", Msg: "panic while replaying a prefix: " + e.msg}
				return
			}
			p.reachedNontrivial = true
			p.obligations++
			p.assertReach["no-panic"]++
			p.violation("no-panic", "panic", e.msg, p.model)
		case engineError:
			kind := "engine"
			if strings.HasPrefix(e.msg, "unsupported") {
				kind = "unsupported"
			}
			res = PathResult{End: kind, Msg: e.msg}
		default:
			where := ""
			if ip.curFn != nil {
				where = " in " + ip.curFn.String()
				if ip.curInstr != nil {
					where += " at " + pr.Fset.Position(ip.curInstr.Pos()).String() + " [" + ip.curInstr.String() + "]"
				}
			}
			if len(ip.stack) > 0 {
				where += " stack=" + strings.Join(ip.stack, " > ")
			}
			res = PathResult{End: "engine", Msg: fmt.Sprintf("internal error%s: %v\n%s", where, r, firstLines(string(debug.Stack()), 12))}
		}
	}()
	ip.callFunction(fn, nil)
	if !p.concrete && len(p.dec) < len(p.prefix) {
		return PathResult{End: "engine", Msg: "path ended before its decision prefix was consumed (non-deterministic replay)"}
	}
	return PathResult{End: "ok", Observations: p.observations}
}

func firstLines(s string, n int) string {
	ls := strings.Split(s, "\n")
	if len(ls) > n {
		ls = ls[:n]
	}
	return strings.Join(ls, "\n")
}

// RunConcrete executes the harness once on a concrete assignment (no solver): translator validation.
func (pr *Program) RunConcrete(fn *ssa.Function, cfg RunConfig) (PathResult, []*Violation, []string) {
	ex := NewExplorer()
	p := &PathCtx{T: NewTermCtx(), ex: ex, known: map[*Term]bool{}, varSet: map[string]*Term{}, assertReach: map[string]int{}, maxSteps: cfg.MaxSteps, params: cfg.Params, harness: cfg.Harness, concrete: true}
	if p.maxSteps == 0 {
		p.maxSteps = 20_000_000
	}
	m := map[string]uint64{}
	for k, v := range cfg.Concrete {
		m[k] = v
	}
	p.setModel(m)
	ip := &Interp{pr: pr, p: p, globals: map[*ssa.Global]*Value{}, funcs: map[string]bool{}, intr: map[string]bool{}, stubs: cfg.Stubs}
	res := pr.execute(p, ip, fn)
	var ids []string
	for k := range p.assertReach {
		ids = append(ids, k)
	}
	sort.Strings(ids)
	return res, ex.Violations, ids
}

func uint64ToInt(n int) int {
	if n <= 0 {
		return 1
	}
	return n
}
