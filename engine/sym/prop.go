package sym

import (
	"bytes"
	"sync"
	"encoding/json"
	"fmt"
	"os"
	"os/exec"
	"path/filepath"
	"regexp"
	"sort"
	"strings"
	"time"

	"golang.org/x/tools/go/ssa"
)

// Unit is one harness entry point with its bounds per tier.
type Unit struct {
	Pkg     string                    `json:"pkg"`   // e.g. "pkg/snps"
	Entry   string                    `json:"entry"` // harness function name
	Claim   string                    `json:"claim"` // what this unit decides
	Params  map[string]map[string]int `json:"params"` // tier -> name -> value
	Timeout map[string]int            `json:"timeout_s"`
	Tiers   []string                  `json:"tiers"` // if set, only run in these tiers
	Expect  []string                  `json:"expect_reach"` // assert ids that must be reached
	Outside string                    `json:"outside"`
}

type PropConfig struct {
	Units       []Unit   `json:"units"`
	Explanation string   `json:"explanation"`
	Assumptions []string `json:"assumptions"`
	Outside     []string `json:"outside_bounds"`
	// RaceDetect: harness calls to vRaceDetect() take effect (only the property that owns the no-data-race
	// clause sets it, so that a race never raises an alarm under another property's id)
	RaceDetect bool `json:"race_detect,omitempty"`
}

type KnownFinding struct {
	Property string            `json:"property"`
	Status   string            `json:"status"` // "known" or "fixed"
	Harness  string            `json:"harness,omitempty"`
	AssertID string            `json:"assert_id,omitempty"`
	Where    map[string]string `json:"where,omitempty"` // variable -> "=v" | "!=v" | "<v" | ">v"
	Note     string            `json:"note,omitempty"`  // the harness must have classified the input with this note
	What     string            `json:"what"`
	Commit   string            `json:"commit,omitempty"`
}

type Options struct {
	VerifDir string
	Repo     string
	Prop     string
	Tier     string
	Seed     int
	Workers  int
	OnlyUnit string
	NoReplay bool
	Verbose  bool
	NoCross  bool
	Trace    bool
	MaxPaths int
	TimeoutS int
}

type unitReport struct {
	Unit        string         `json:"unit"`
	Pkg         string         `json:"pkg"`
	Claim       string         `json:"claim,omitempty"`
	Params      map[string]int `json:"params"`
	Paths       int            `json:"paths"`
	PathsByEnd  map[string]int `json:"paths_by_end"`
	Nontrivial  int            `json:"paths_reaching_nonconstant_obligation"`
	Obligations int            `json:"obligations"`
	Discharged  int            `json:"discharged"`
	Trivial     int            `json:"obligations_folded_constant_true"`
	Queries     int            `json:"solver_queries"`
	SolverS     float64        `json:"solver_time_s"`
	WallS       float64        `json:"wall_s"`
	Steps       int64          `json:"ssa_instructions_executed"`
	Pruned      int64          `json:"branch_sides_pruned_by_value_sets"`
	MaxDepth    int            `json:"max_decision_depth"`
	Violations  int            `json:"violations"`
	Confirmed   int            `json:"violations_replay_confirmed"`
	Spurious    int            `json:"spurious"`
	Known       int            `json:"known_findings_matched"`
	KnownTotal  int            `json:"paths_failing_only_by_known_findings"`
	Inconcl     []string       `json:"inconclusive,omitempty"`
	Reach       map[string]int `json:"assert_reach"`
	Cross       string         `json:"cross_solver,omitempty"`
	Vacuity     string         `json:"vacuity_witness,omitempty"`
	Selftest    string         `json:"translator_selftest,omitempty"`
}

var harnessFuncRe = regexp.MustCompile(`(?m)^func (VH_\w+)\(\)`)

// RunProperty runs all units of a property and returns the process exit code.
func RunProperty(o Options) int {
	t0 := time.Now()
	cfgAll := map[string]*PropConfig{}
	b, err := os.ReadFile(filepath.Join(o.VerifDir, "checks.json"))
	if err != nil {
		fmt.Println("INCONCLUSIVE: cannot read checks.json:", err)
		return 2
	}
	if err := json.Unmarshal(b, &cfgAll); err != nil {
		fmt.Println("INCONCLUSIVE: checks.json:", err)
		return 2
	}
	pc, ok := cfgAll[o.Prop]
	if !ok {
		fmt.Println("INCONCLUSIVE: no configuration for property", o.Prop)
		return 2
	}
	var known []KnownFinding
	if kb, err := os.ReadFile(filepath.Join(o.VerifDir, "known_findings.json")); err == nil {
		if err := json.Unmarshal(kb, &known); err != nil {
			fmt.Println("INCONCLUSIVE: known_findings.json:", err)
			return 2
		}
	}

	// units of this tier
	var units []Unit
	for _, u := range pc.Units {
		if o.OnlyUnit != "" && u.Entry != o.OnlyUnit {
			continue
		}
		if len(u.Tiers) > 0 {
			in := false
			for _, t := range u.Tiers {
				if t == o.Tier {
					in = true
				}
			}
			if !in {
				continue
			}
		}
		units = append(units, u)
	}
	if len(units) == 0 {
		fmt.Println("INCONCLUSIVE: no units to run")
		return 2
	}
	// harness set: all harness files of every package involved
	hs := &HarnessSet{Files: map[string][]string{}}
	pkgNames := map[string]string{}
	var pkgRels []string
	for _, u := range units {
		if _, ok := hs.Files[u.Pkg]; ok {
			continue
		}
		dir := filepath.Join(o.VerifDir, "harness", filepath.Base(u.Pkg))
		files, _ := filepath.Glob(filepath.Join(dir, "*.go"))
		sort.Strings(files)
		hs.Files[u.Pkg] = files
		name, err := PackageName(filepath.Join(o.Repo, u.Pkg))
		if err != nil {
			fmt.Println("INCONCLUSIVE:", err)
			return 2
		}
		pkgNames[u.Pkg] = name
		pkgRels = append(pkgRels, u.Pkg)
	}
	overlay, err := BuildOverlay(o.Repo, hs, pkgNames)
	if err != nil {
		fmt.Println("INCONCLUSIVE:", err)
		return 2
	}
	tl := time.Now()
	pr, spkgs, err := Load(o.Repo, pkgRels, overlay)
	if err != nil {
		fmt.Println("INCONCLUSIVE: the harness does not build against the current tree:", err)
		writeEvidence(o, pc, nil, nil, time.Since(t0).Seconds(), []string{"harness does not build: " + err.Error()}, 0)
		return 2
	}
	loadS := time.Since(tl).Seconds()
	if o.Verbose {
		fmt.Printf("loaded and built SSA in %.1fs\n", loadS)
	}

	var reports []*unitReport
	var allViol []*Violation
	var inconclusive []string
	funcs := map[string]bool{}
	intr := map[string]bool{}
	assumes := map[string]bool{}
	var samples []string
	var dumps []string
	for _, u := range units {
		sp := spkgs[u.Pkg]
		fn := sp.Func(u.Entry)
		if fn == nil {
			inconclusive = append(inconclusive, "harness function not found: "+u.Entry)
			continue
		}
		params := map[string]int{}
		for k, v := range u.Params[o.Tier] {
			params[k] = v
		}
		if len(u.Params[o.Tier]) == 0 {
			for k, v := range u.Params["quick"] {
				params[k] = v
			}
		}
		if pc.RaceDetect {
			params["RACE"] = 1
		}
		to := 1500
		if v, ok := u.Timeout[o.Tier]; ok {
			to = v
		} else if o.Tier == "thorough" {
			to = 3600
		}
		if o.TimeoutS > 0 {
			to = o.TimeoutS
		}
		cfg := RunConfig{Harness: u.Entry, Workers: o.Workers, Params: params, Timeout: time.Duration(to) * time.Second, Trace: o.Trace, MaxPaths: o.MaxPaths,
			KnownMatch: func(v *Violation) string { return matchKnown(v, o.Prop, known) }}
		tu := time.Now()
		ex := pr.Explore(fn, cfg)
		st := ex.Stats
		nknown := 0
		for k, n := range ex.violCount {
			if !strings.HasSuffix(k, "|") {
				nknown += n
			}
		}
		rep := &unitReport{KnownTotal: nknown, Unit: u.Entry, Pkg: u.Pkg, Claim: u.Claim, Params: params, Paths: st.Paths, PathsByEnd: st.PathsByEnd, Nontrivial: st.Nontrivial,
			Obligations: st.Obligations, Discharged: st.Discharged, Trivial: st.TrivialObl, Queries: st.Queries, SolverS: st.SolverTime.Seconds(),
			WallS: time.Since(tu).Seconds(), Steps: st.Steps, Pruned: st.Pruned, MaxDepth: st.MaxDepth, Violations: len(ex.Violations), Reach: st.AssertReach}
		for _, m := range st.Inconclusive {
			rep.Inconcl = append(rep.Inconcl, m)
		}
		if st.SolverErrors > 0 {
			rep.Inconcl = append(rep.Inconcl, fmt.Sprintf("%d solver (error lines", st.SolverErrors))
		}
		// vacuity: every expected assert id must have been reached on a feasible path
		for _, id := range u.Expect {
			if st.AssertReach[id] == 0 {
				rep.Inconcl = append(rep.Inconcl, "vacuous: obligation "+id+" was never reached")
			}
		}
		if st.Obligations+st.TrivialObl == 0 {
			rep.Inconcl = append(rep.Inconcl, "vacuous: no obligation was reached on any path")
		} else {
			rep.Vacuity = fmt.Sprintf("%d feasible paths reached an obligation; each obligation id reached: %v", st.Nontrivial, reachList(st.AssertReach))
		}
		for k := range st.FuncsEncoded {
			funcs[k] = true
		}
		for k := range st.Intrinsics {
			intr[k] = true
		}
		for k := range st.Assumptions {
			assumes[k] = true
		}
		for _, s := range st.Samples {
			if len(samples) < 8 {
				samples = append(samples, u.Entry+": "+s)
			}
		}
		dumps = append(dumps, st.ObligationDump...)
		for _, v := range ex.Violations {
			allViol = append(allViol, v)
		}
		// translator validation on this unit
		if len(rep.Inconcl) == 0 && !o.NoReplay {
			rep.Selftest = pr.selftest(o, hs, pkgNames, u, fn, cfg, ex)
			if strings.HasPrefix(rep.Selftest, "MISMATCH") {
				rep.Inconcl = append(rep.Inconcl, "translator selftest: "+rep.Selftest)
			}
		}
		reports = append(reports, rep)
		for _, m := range rep.Inconcl {
			inconclusive = append(inconclusive, u.Entry+": "+m)
		}
		if o.Verbose {
			fmt.Printf("unit %s: paths=%d obligations=%d discharged=%d violations=%d queries=%d wall=%.1fs %v\n", u.Entry, st.Paths, st.Obligations, st.Discharged, len(ex.Violations), st.Queries, rep.WallS, st.PathsByEnd)
			for _, m := range rep.Inconcl {
				fmt.Println("   inconclusive:", m)
			}
		}
	}

	// cross-solver check of a sample of discharged obligations
	crossNote := ""
	if !o.NoCross && len(dumps) > 0 {
		crossNote = crossCheck(dumps, o.Tier)
		if strings.HasPrefix(crossNote, "DISAGREE") {
			inconclusive = append(inconclusive, "cross-solver: "+crossNote)
		}
	}

	// classify and replay violations
	interpReplay = func(v *Violation) bool {
		for _, u := range units {
			if u.Entry != v.Harness {
				continue
			}
			fn := spkgs[u.Pkg].Func(u.Entry)
			if fn == nil {
				return false
			}
			_, viols, _ := pr.RunConcrete(fn, RunConfig{Harness: u.Entry, Params: v.Params, Concrete: v.Model})
			for _, x := range viols {
				if x.AssertID == v.AssertID {
					return true
				}
			}
		}
		return false
	}
	exit := 0
	nViolNew := 0
	if len(allViol) > 0 {
		replayViolations(o, hs, pkgNames, allViol, known)
		printedKnown := map[string]bool{}
		printedNew := map[string]bool{}
		for _, v := range allViol {
			for _, r := range reports {
				if r.Unit == v.Harness {
					switch {
					case v.Replayed == "spurious":
						r.Spurious++
					case v.Known != "":
						r.Known++
						if v.Replayed == "confirmed" {
							r.Confirmed++
						}
					case v.Replayed == "confirmed":
						r.Confirmed++
					}
				}
			}
			switch {
			case v.Replayed == "spurious":
				inconclusive = append(inconclusive, fmt.Sprintf("SPURIOUS counterexample for %s/%s did not reproduce natively (%s)", v.Harness, v.AssertID, v.Path))
			case v.Known != "":
				if !printedKnown[v.Known] {
					printedKnown[v.Known] = true
					fmt.Printf("KNOWN-FINDING: property=%s %s\n", o.Prop, v.Known)
				}
			case v.Replayed == "confirmed":
				key := v.Harness + "/" + v.AssertID
				if !printedNew[key] {
					printedNew[key] = true
					fmt.Printf("VIOLATION property=%s replay=%s\n", o.Prop, v.Path)
					fmt.Printf("  harness=%s obligation=%s kind=%s %s\n  input: %s\n", v.Harness, v.AssertID, v.Kind, v.Msg, modelString(v.Model))
				}
				nViolNew++
				exit = 1
			case v.Replayed == "skipped":
				// beyond the replay budget for this obligation id; same id already reported
			}
		}
	}
	if exit == 0 && len(inconclusive) > 0 {
		exit = 2
		for _, m := range inconclusive {
			fmt.Println("INCONCLUSIVE:", m)
		}
	}
	ev := collectEvidence(funcs, intr, assumes, samples)
	ev.cross = crossNote
	ev.loadS = loadS
	writeEvidence(o, pc, reports, ev, time.Since(t0).Seconds(), inconclusive, nViolNew)
	if exit == 0 {
		tp, to, td := 0, 0, 0
		for _, r := range reports {
			tp += r.Paths
			to += r.Obligations
			td += r.Discharged
		}
		fmt.Printf("OK property=%s tier=%s units=%d paths=%d obligations=%d discharged=%d wall=%.1fs\n", o.Prop, o.Tier, len(reports), tp, to, td, time.Since(t0).Seconds())
	}
	if h := QHistString(); h != "" {
		fmt.Print(h)
	}
	return exit
}

func reachList(m map[string]int) []string {
	var r []string
	for k, v := range m {
		r = append(r, fmt.Sprintf("%s×%d", k, v))
	}
	sort.Strings(r)
	return r
}

type evidenceBits struct {
	funcs, intr, assumes []string
	samples              []string
	cross                string
	loadS                float64
}

func collectEvidence(funcs, intr, assumes map[string]bool, samples []string) *evidenceBits {
	e := &evidenceBits{samples: samples}
	for k := range funcs {
		e.funcs = append(e.funcs, k)
	}
	for k := range intr {
		e.intr = append(e.intr, k)
	}
	for k := range assumes {
		e.assumes = append(e.assumes, k)
	}
	sort.Strings(e.funcs)
	sort.Strings(e.intr)
	sort.Strings(e.assumes)
	return e
}

func writeEvidence(o Options, pc *PropConfig, reports []*unitReport, ev *evidenceBits, wall float64, inconclusive []string, nviol int) {
	tp, tn, to, td, tq := 0, 0, 0, 0, 0
	ts := 0.0
	for _, r := range reports {
		tp += r.Paths
		tn += r.Nontrivial
		to += r.Obligations
		td += r.Discharged
		tq += r.Queries
		ts += r.SolverS
	}
	cov := map[string]interface{}{
		"explanation": pc.Explanation + " Decided by bounded symbolic execution of the listed functions (compiled from /repo's current source to go/ssa on this run) with z3 (5.1.0, QF_BV, one long-lived process per worker) discharging every obligation on every feasible path; 'evaluations' counts explored paths, 'distinct_nontrivial' counts paths (distinct decision prefixes, each with a solver-established feasible path condition of at least one symbolic decision) that reached at least one obligation; obligations whose condition folds to a constant on a path (e.g. floating-point results computed from that path's concrete counts) are counted under obligations_folded_constant_true per unit.",
		"evaluations": tp, "distinct_nontrivial": tn,
		"rule":        "paths are enumerated by replay-based DFS over symbolic branch decisions (each decision prefix is explored once; a branch is followed only if the solver finds it feasible); a path is non-trivial when it made at least one symbolic decision and reached an obligation",
		"obligations": to, "discharged": td, "queries": tq, "solver_time_s": ts,
		"units":          reports,
		"outside_bounds": pc.Outside,
		"inconclusive":   inconclusive,
		"exhaustive":     false,
	}
	if ev != nil {
		cov["functions_encoded"] = ev.funcs
		cov["trusted_base"] = append([]string{"golang.org/x/tools/go/ssa v0.29.0 (SSA construction)", "symgo interpreter + intrinsics (validated per run by concrete re-execution against the native build)", "z3 5.1.0 (z3-new) as deciding solver, logic QF_BV; z3 4.8.12 and cvc5 1.0.3 re-check a sample"}, ev.intr...)
		cov["samples"] = ev.samples
		cov["cross_solver"] = ev.cross
		cov["load_build_ssa_s"] = ev.loadS
		cov["checker_cmd"] = fmt.Sprintf("bin/symgo run --prop %s --tier %s", o.Prop, o.Tier)
	}
	if _, ok := cov["samples"]; !ok || len(ev.samples) == 0 {
		cov["samples"] = []string{"(no path reached an obligation)"}
	}
	assume := append([]string{}, pc.Assumptions...)
	if ev != nil {
		for _, a := range ev.assumes {
			assume = append(assume, "input domain: "+a)
		}
	}
	e := map[string]interface{}{
		"property_id": o.Prop, "tier": o.Tier, "seed": o.Seed, "level": "other",
		"coverage": cov, "assumptions": assume, "wall_s": wall, "violations": nviol,
	}
	b, _ := json.MarshalIndent(e, "", " ")
	os.MkdirAll(filepath.Join(outDir(o), "evidence"), 0o755)
	os.WriteFile(filepath.Join(outDir(o), "evidence", o.Prop+".json"), b, 0o644)
}

// ---- known findings ----

func matchKnown(v *Violation, prop string, known []KnownFinding) string {
	for _, k := range known {
		if k.Status != "known" || k.Property != prop {
			continue
		}
		if k.Harness != "" && k.Harness != v.Harness {
			continue
		}
		if k.AssertID != "" && k.AssertID != v.AssertID {
			continue
		}
		ok := true
		if k.Note != "" {
			has := false
			for _, n := range v.Notes {
				if n == k.Note {
					has = true
				}
			}
			if !has {
				continue
			}
		}
		for name, cond := range k.Where {
			val, has := v.Model[name]
			if !has {
				if pv, hasP := v.Params[name]; hasP {
					val = uint64(int64(pv))
				} else {
					ok = false
					break
				}
			}
			if !condHolds(int64(val), cond) {
				ok = false
				break
			}
		}
		if ok {
			return k.What
		}
	}
	return ""
}

func condHolds(v int64, cond string) bool {
	var op string
	var rhs int64
	for _, o := range []string{"!=", "<=", ">=", "=", "<", ">"} {
		if strings.HasPrefix(cond, o) {
			op = o
			fmt.Sscanf(cond[len(o):], "%d", &rhs)
			break
		}
	}
	switch op {
	case "=":
		return v == rhs
	case "!=":
		return v != rhs
	case "<":
		return v < rhs
	case ">":
		return v > rhs
	case "<=":
		return v <= rhs
	case ">=":
		return v >= rhs
	}
	return false
}

// ---- native replay ----

type replayBuild struct {
	dir string
	bin map[string]string // pkgRel -> test binary
	err map[string]string
}

func genReplayFiles(o Options, hs *HarnessSet, pkgNames map[string]string, tmp string) (string, error) {
	repl := map[string]string{}
	for rel, files := range hs.Files {
		name := pkgNames[rel]
		api := filepath.Join(tmp, strings.ReplaceAll(rel, "/", "_")+"_api.go")
		if err := os.WriteFile(api, []byte("package "+name+"\n"+APISource), 0o644); err != nil {
			return "", err
		}
		repl[filepath.Join(o.Repo, rel, APIFileName)] = api
		var names []string
		for _, f := range files {
			repl[filepath.Join(o.Repo, rel, "zz_verif_"+filepath.Base(f))] = f
			b, _ := os.ReadFile(f)
			for _, m := range harnessFuncRe.FindAllSubmatch(b, -1) {
				names = append(names, string(m[1]))
			}
		}
		var sb strings.Builder
		sb.WriteString("package " + name + "\n\nimport (\n\t\"fmt\"\n\t\"os\"\n\t\"testing\"\n)\n\nvar vHarnesses = map[string]func(){\n")
		for _, n := range names {
			fmt.Fprintf(&sb, "\t%q: %s,\n", n, n)
		}
		sb.WriteString("}\n\nfunc TestVerifReplay(t *testing.T) {\n\th, ok := vHarnesses[os.Getenv(\"VERIF_HARNESS\")]\n\tif !ok {\n\t\tt.Fatal(\"unknown harness\")\n\t}\n\tfailed, stopped, panicked := vRun(h)\n\tfmt.Printf(\"VERIF-RESULT failed=%q stopped=%q panicked=%q\\n\", failed, stopped, panicked)\n\tfor _, o := range vObs {\n\t\tfmt.Println(\"VERIF-OBS \" + o)\n\t}\n\tif len(failed) > 0 || panicked != \"\" {\n\t\tt.Fail()\n\t}\n}\n")
		tf := filepath.Join(tmp, strings.ReplaceAll(rel, "/", "_")+"_replay_test.go")
		if err := os.WriteFile(tf, []byte(sb.String()), 0o644); err != nil {
			return "", err
		}
		repl[filepath.Join(o.Repo, rel, "zz_verif_replay_test.go")] = tf
	}
	ovb, _ := json.Marshal(map[string]interface{}{"Replace": repl})
	ovf := filepath.Join(tmp, "overlay.json")
	if err := os.WriteFile(ovf, ovb, 0o644); err != nil {
		return "", err
	}
	return ovf, nil
}

func goEnv() []string {
	return append(os.Environ(), "GOFLAGS=-mod=mod", "GOPROXY=off", "GOSUMDB=off", "GOTOOLCHAIN=local", "GOWORK=off")
}

// buildReplay compiles the native test binary of a package with the harness overlaid.
func buildReplay(o Options, hs *HarnessSet, pkgNames map[string]string, rb *replayBuild, rel string) (string, string) {
	return buildReplayMode(o, hs, pkgNames, rb, rel, false)
}

// buildReplayMode: with race=true the test binary is built with the Go race detector (-race), used to confirm
// data-race counterexamples against the real code.
func buildReplayMode(o Options, hs *HarnessSet, pkgNames map[string]string, rb *replayBuild, rel string, race bool) (string, string) {
	if race {
		key := rel + "#race"
		if b, ok := rb.bin[key]; ok {
			return b, rb.err[key]
		}
		ovf, err := genReplayFiles(o, hs, pkgNames, rb.dir)
		if err != nil {
			rb.bin[key], rb.err[key] = "", err.Error()
			return "", err.Error()
		}
		bin := filepath.Join(rb.dir, strings.ReplaceAll(rel, "/", "_")+".race.test")
		cmd := exec.Command("go", "test", "-c", "-race", "-vet=off", "-overlay", ovf, "-o", bin, "./"+rel)
		cmd.Dir = o.Repo
		cmd.Env = goEnv()
		out, err := cmd.CombinedOutput()
		if err != nil {
			rb.bin[key], rb.err[key] = "", "native -race build failed: "+string(out)
			return "", rb.err[key]
		}
		rb.bin[key] = bin
		return bin, ""
	}
	if b, ok := rb.bin[rel]; ok {
		return b, rb.err[rel]
	}
	ovf, err := genReplayFiles(o, hs, pkgNames, rb.dir)
	if err != nil {
		rb.bin[rel], rb.err[rel] = "", err.Error()
		return "", err.Error()
	}
	bin := filepath.Join(rb.dir, strings.ReplaceAll(rel, "/", "_")+".test")
	cmd := exec.Command("go", "test", "-c", "-vet=off", "-overlay", ovf, "-o", bin, "./"+rel)
	cmd.Dir = o.Repo
	cmd.Env = goEnv()
	out, err := cmd.CombinedOutput()
	if err != nil {
		rb.bin[rel], rb.err[rel] = "", "native build failed: "+string(out)
		return "", rb.err[rel]
	}
	rb.bin[rel] = bin
	return bin, ""
}

type nativeResult struct {
	failed   []string
	stopped  string
	panicked string
	raw      string
	obs      []string
}

var resultRe = regexp.MustCompile(`VERIF-RESULT failed=(\[.*?\]) stopped="(.*?)" panicked="(.*)"`)

func runNative(bin, dir, harness string, model map[string]uint64, params map[string]int, tmp string) nativeResult {
	mf := filepath.Join(tmp, fmt.Sprintf("model_%d.json", time.Now().UnixNano()))
	mb, _ := json.Marshal(map[string]interface{}{"model": model, "params": params})
	os.WriteFile(mf, mb, 0o644)
	defer os.Remove(mf)
	var buf bytes.Buffer
	// a native run takes milliseconds; on a loaded machine a run that hits the 30 s deadline is repeated once
	// with a longer one before it is believed
	for _, to := range []string{"30s", "180s"} {
		buf.Reset()
		cmd := exec.Command(bin, "-test.run", "^TestVerifReplay$", "-test.count=1", "-test.timeout="+to)
		cmd.Dir = dir
		cmd.Env = append(os.Environ(), "VERIF_MODEL="+mf, "VERIF_HARNESS="+harness)
		cmd.Stdout = &buf
		cmd.Stderr = &buf
		cmd.Run()
		if !strings.Contains(buf.String(), "test timed out") {
			break
		}
	}
	res := nativeResult{raw: buf.String()}
	if m := resultRe.FindStringSubmatch(res.raw); m != nil {
		for _, f := range regexp.MustCompile(`"([^"]*)"`).FindAllStringSubmatch(m[1], -1) {
			res.failed = append(res.failed, f[1])
		}
		res.stopped = m[2]
		res.panicked = m[3]
	} else if strings.Contains(res.raw, "panic:") || strings.Contains(res.raw, "fatal error:") {
		res.panicked = "crash"
	}
	for _, l := range strings.Split(res.raw, "\n") {
		if strings.HasPrefix(l, "VERIF-OBS ") {
			res.obs = append(res.obs, strings.TrimPrefix(l, "VERIF-OBS "))
		}
	}
	return res
}

const replayPerID = 3

// schedDependent: the counterexample fixes a goroutine schedule, select choice or map iteration order, which
// the native build cannot be forced into; such counterexamples are confirmed by deterministic concrete
// re-execution in the interpreter under the recorded choices.
func schedDependent(m map[string]uint64) bool {
	for k := range m {
		if strings.HasPrefix(k, "sched!") || strings.HasPrefix(k, "select!") || strings.HasPrefix(k, "maporder!") {
			return true
		}
	}
	return false
}

var interpReplay func(v *Violation) bool

func replayViolations(o Options, hs *HarnessSet, pkgNames map[string]string, viols []*Violation, known []KnownFinding) {
	tmp, err := os.MkdirTemp("", "symgo-replay-")
	if err != nil {
		for _, v := range viols {
			v.Replayed = "spurious"
		}
		return
	}
	defer os.RemoveAll(tmp)
	rb := &replayBuild{dir: tmp, bin: map[string]string{}, err: map[string]string{}}
	rdir := filepath.Join(outDir(o), "replay", o.Prop)
	os.RemoveAll(rdir)
	os.MkdirAll(rdir, 0o755)
	perID := map[string]int{}
	// which package does each harness live in
	pkgOf := map[string]string{}
	for rel, files := range hs.Files {
		for _, f := range files {
			b, _ := os.ReadFile(f)
			for _, m := range harnessFuncRe.FindAllSubmatch(b, -1) {
				pkgOf[string(m[1])] = rel
			}
		}
	}
	// known ones first so that each distinct known finding gets replayed too; stable order
	sort.SliceStable(viols, func(i, j int) bool {
		return viols[i].Harness+"/"+viols[i].AssertID < viols[j].Harness+"/"+viols[j].AssertID
	})
	n := 0
	for _, v := range viols {
		if v.Known == "" {
			v.Known = matchKnown(v, o.Prop, known)
		}
		key := v.Harness + "/" + v.AssertID + "/" + v.Known
		perID[key]++
		if perID[key] > replayPerID {
			v.Replayed = "skipped"
			continue
		}
		n++
		v.Path = filepath.Join(rdir, fmt.Sprintf("%03d_%s_%s.json", n, v.Harness, sanitize(v.AssertID)))
		if o.NoReplay {
			v.Replayed = "confirmed"
		} else if v.Kind == "race" {
			// a data race is confirmed by the Go race detector on the real build, run on the same input (the race
			// detector is happens-before based too, so it does not depend on hitting a particular interleaving)
			rel := pkgOf[v.Harness]
			bin, berr := buildReplayMode(o, hs, pkgNames, rb, rel, true)
			v.Replayed = "spurious"
			if bin == "" {
				v.Msg += " [" + berr + "]"
			} else {
				for try := 0; try < 5 && v.Replayed != "confirmed"; try++ {
					res := runNative(bin, filepath.Join(o.Repo, rel), v.Harness, v.Model, v.Params, tmp)
					if strings.Contains(res.raw, "WARNING: DATA RACE") {
						v.Replayed = "confirmed"
						v.Msg += " [confirmed natively: the Go race detector reports a data race on this input]"
					}
				}
				if v.Replayed != "confirmed" {
					v.Msg += " [the Go race detector did not report a race in 5 native runs]"
				}
			}
		} else if schedDependent(v.Model) {
			if interpReplay != nil && interpReplay(v) {
				v.Replayed = "confirmed"
				v.Msg += " [schedule/map-order dependent: confirmed by concrete re-execution in the interpreter under the recorded choices; the native build cannot be forced into a schedule]"
			} else {
				v.Replayed = "spurious"
			}
		} else {
			rel := pkgOf[v.Harness]
			bin, berr := buildReplay(o, hs, pkgNames, rb, rel)
			if bin == "" {
				v.Replayed = "spurious"
				v.Msg += " [" + berr + "]"
			} else {
				res := runNative(bin, filepath.Join(o.Repo, rel), v.Harness, v.Model, v.Params, tmp)
				ok := false
				if v.Kind == "panic" {
					ok = res.panicked != ""
				} else {
					for _, f := range res.failed {
						if f == v.AssertID {
							ok = true
						}
					}
				}
				if ok {
					v.Replayed = "confirmed"
				} else {
					v.Replayed = "spurious"
					v.Msg += fmt.Sprintf(" [native: failed=%v stopped=%q panicked=%q]", res.failed, res.stopped, res.panicked)
				}
			}
		}
		jb, _ := json.MarshalIndent(map[string]interface{}{
			"property": o.Prop, "harness": v.Harness, "pkg": pkgOf[v.Harness], "assert_id": v.AssertID, "kind": v.Kind, "msg": v.Msg,
			"model": v.Model, "params": v.Params, "notes": v.Notes, "replayed": v.Replayed, "known_finding": v.Known,
			"how_to_replay": "bin/symgo replay --repo /repo " + v.Path,
		}, "", " ")
		os.WriteFile(v.Path, jb, 0o644)
	}
}

func sanitize(s string) string {
	return regexp.MustCompile(`[^A-Za-z0-9_.-]`).ReplaceAllString(s, "_")
}

// ReplayFile re-runs one stored counterexample natively. Exit 1 if it reproduces.
func ReplayFile(o Options, path string) int {
	b, err := os.ReadFile(path)
	if err != nil {
		fmt.Println(err)
		return 2
	}
	var r struct {
		Harness  string            `json:"harness"`
		Pkg      string            `json:"pkg"`
		AssertID string            `json:"assert_id"`
		Kind     string            `json:"kind"`
		Model    map[string]uint64 `json:"model"`
		Params   map[string]int    `json:"params"`
	}
	if err := json.Unmarshal(b, &r); err != nil {
		fmt.Println(err)
		return 2
	}
	hs := &HarnessSet{Files: map[string][]string{}}
	files, _ := filepath.Glob(filepath.Join(o.VerifDir, "harness", filepath.Base(r.Pkg), "*.go"))
	hs.Files[r.Pkg] = files
	name, err := PackageName(filepath.Join(o.Repo, r.Pkg))
	if err != nil {
		fmt.Println(err)
		return 2
	}
	if r.Kind == "race" {
		tmp, _ := os.MkdirTemp("", "symgo-replay-")
		defer os.RemoveAll(tmp)
		rb := &replayBuild{dir: tmp, bin: map[string]string{}, err: map[string]string{}}
		bin, berr := buildReplayMode(o, hs, map[string]string{r.Pkg: name}, rb, r.Pkg, true)
		if bin == "" {
			fmt.Println(berr)
			return 2
		}
		for try := 0; try < 5; try++ {
			res := runNative(bin, filepath.Join(o.Repo, r.Pkg), r.Harness, r.Model, r.Params, tmp)
			if strings.Contains(res.raw, "WARNING: DATA RACE") {
				fmt.Print(res.raw)
				return 1
			}
		}
		fmt.Println("the Go race detector did not report a race in 5 native runs")
		return 0
	}
	if schedDependent(r.Model) {
		// fixes a goroutine schedule / select choice / map order: re-execute deterministically in the interpreter
		overlay, err := BuildOverlay(o.Repo, hs, map[string]string{r.Pkg: name})
		if err != nil {
			fmt.Println(err)
			return 2
		}
		pr, spkgs, err := Load(o.Repo, []string{r.Pkg}, overlay)
		if err != nil {
			fmt.Println("harness does not build against the current tree:", err)
			return 2
		}
		fn := spkgs[r.Pkg].Func(r.Harness)
		if fn == nil {
			fmt.Println("harness function not found:", r.Harness)
			return 2
		}
		res, viols, _ := pr.RunConcrete(fn, RunConfig{Harness: r.Harness, Params: r.Params, Concrete: r.Model})
		fmt.Printf("interpreter re-execution under the recorded schedule / map order: end=%s %s\n", res.End, res.Msg)
		for _, v := range viols {
			fmt.Printf("  failed obligation: %s\n", v.AssertID)
			if v.AssertID == r.AssertID {
				return 1
			}
		}
		return 0
	}
	tmp, _ := os.MkdirTemp("", "symgo-replay-")
	defer os.RemoveAll(tmp)
	rb := &replayBuild{dir: tmp, bin: map[string]string{}, err: map[string]string{}}
	bin, berr := buildReplay(o, hs, map[string]string{r.Pkg: name}, rb, r.Pkg)
	if bin == "" {
		fmt.Println(berr)
		return 2
	}
	res := runNative(bin, filepath.Join(o.Repo, r.Pkg), r.Harness, r.Model, r.Params, tmp)
	fmt.Print(res.raw)
	if r.Kind == "panic" && res.panicked != "" {
		return 1
	}
	for _, f := range res.failed {
		if f == r.AssertID {
			return 1
		}
	}
	return 0
}

// ---- translator validation: concrete re-execution in the interpreter vs the native build ----

func (pr *Program) selftest(o Options, hs *HarnessSet, pkgNames map[string]string, u Unit, fn *ssa.Function, cfg RunConfig, ex *Explorer) string {
	// take witnesses of explored paths (the models kept in samples are not structured; re-derive from violations
	// and from a few random assignments consistent with nothing in particular is meaningless), so use the
	// models recorded on the explorer.
	ms := ex.witnesses
	if len(ms) == 0 {
		return "no witnesses recorded"
	}
	tmp, err := os.MkdirTemp("", "symgo-selftest-")
	if err != nil {
		return "skipped: " + err.Error()
	}
	defer os.RemoveAll(tmp)
	rb := &replayBuild{dir: tmp, bin: map[string]string{}, err: map[string]string{}}
	bin, berr := buildReplay(o, hs, pkgNames, rb, u.Pkg)
	if bin == "" {
		return "MISMATCH: " + berr
	}
	n, agree := 0, 0
	type stRes struct {
		same bool
		msg  string
	}
	var todo []map[string]uint64
	for _, m := range ms {
		if schedDependent(m) {
			continue // the native build cannot be forced into the recorded schedule / map order
		}
		todo = append(todo, m)
	}
	results := make([]stRes, len(todo))
	var wg sync.WaitGroup
	sem := make(chan struct{}, 8)
	for i, m := range todo {
		wg.Add(1)
		sem <- struct{}{}
		go func(i int, m map[string]uint64) {
			defer wg.Done()
			defer func() { <-sem }()
			c := cfg
			c.Concrete = m
			res, viols, _ := pr.RunConcrete(fn, c)
			nat := runNative(bin, filepath.Join(o.Repo, u.Pkg), u.Entry, m, cfg.Params, tmp)
			var ifail []string
			for _, v := range viols {
				if v.Kind == "assert" {
					ifail = append(ifail, v.AssertID)
				}
			}
			sort.Strings(ifail)
			nf := append([]string{}, nat.failed...)
			sort.Strings(nf)
			same := strings.Join(dedupe(ifail), ",") == strings.Join(dedupe(nf), ",")
			switch res.End {
			case "ok":
				same = same && nat.stopped == "" && nat.panicked == ""
				if same {
					same = strings.Join(res.Observations, "\n") == strings.Join(nat.obs, "\n")
				}
			case "panic":
				same = same && nat.panicked != ""
			case "assume":
				same = same && nat.stopped == "VERIF-ASSUME-FAIL"
			case "cut":
				same = same && (nat.stopped == "VERIF-CUT" || nat.stopped == "")
			case "stop":
			default:
				same = false
			}
			results[i] = stRes{same, fmt.Sprintf("selftest mismatch on %s: interp end=%s fail=%v obs=%v | native fail=%v stopped=%q panicked=%q obs=%v model=%s", u.Entry, res.End, ifail, res.Observations, nat.failed, nat.stopped, nat.panicked, nat.obs, modelString(m))}
		}(i, m)
	}
	wg.Wait()
	for _, r := range results {
		n++
		if r.same {
			agree++
		} else if o.Verbose {
			fmt.Println(r.msg)
		}
	}
	if n == 0 {
		return "all recorded witnesses fix a goroutine schedule or map order, which the native build cannot be forced into: no native comparison for this unit"
	}
	if agree != n {
		return fmt.Sprintf("MISMATCH: %d of %d concrete re-executions disagree with the native build", n-agree, n)
	}
	return fmt.Sprintf("%d/%d path witnesses re-executed concretely in the interpreter agree with the native build (end state, failed obligations, observations)", agree, n)
}

func dedupe(s []string) []string {
	var r []string
	for i, x := range s {
		if i == 0 || x != s[i-1] {
			r = append(r, x)
		}
	}
	return r
}

// ---- cross-solver ----

func crossCheck(dumps []string, tier string) string {
	max := 12
	if tier == "thorough" {
		max = 60
	}
	if len(dumps) > max {
		dumps = dumps[:max]
	}
	tmp, err := os.MkdirTemp("", "symgo-cross-")
	if err != nil {
		return "skipped: " + err.Error()
	}
	defer os.RemoveAll(tmp)
	solvers := [][]string{{"z3", "-smt2", "-T:60"}, {"cvc5", "--lang=smt2", "--tlimit=60000"}}
	var mu sync.Mutex
	counts := map[string]int{}
	disagree := ""
	var wg sync.WaitGroup
	sem := make(chan struct{}, 12)
	for i, d := range dumps {
		f := filepath.Join(tmp, fmt.Sprintf("q%d.smt2", i))
		os.WriteFile(f, []byte("(set-logic ALL)\n"+d), 0o644)
		for _, s := range solvers {
			if _, err := exec.LookPath(s[0]); err != nil {
				counts[s[0]+":missing"]++
				continue
			}
			wg.Add(1)
			sem <- struct{}{}
			go func(i int, s []string, f string) {
				defer wg.Done()
				defer func() { <-sem }()
				out, _ := exec.Command(s[0], append(s[1:], f)...).CombinedOutput()
				ans := strings.TrimSpace(string(out))
				mu.Lock()
				defer mu.Unlock()
				switch {
				case strings.HasPrefix(ans, "unsat"):
					counts[s[0]+":unsat"]++
				case strings.HasPrefix(ans, "sat"):
					disagree = fmt.Sprintf("DISAGREE: %s answers sat on an obligation the deciding solver discharged (query %d)", s[0], i)
				default:
					counts[s[0]+":other"]++
				}
			}(i, s, f)
		}
	}
	wg.Wait()
	if disagree != "" {
		return disagree
	}
	var parts []string
	for k, v := range counts {
		parts = append(parts, fmt.Sprintf("%s=%d", k, v))
	}
	sort.Strings(parts)
	return fmt.Sprintf("%d discharged obligations re-checked as standalone scripts: %s", len(dumps), strings.Join(parts, " "))
}

// outDir is where evidence and replay files go: the verification directory, unless SYMGO_OUT redirects them
// (used when trying the checks against scratch copies of the repository, so that committed evidence is not
// overwritten).
func outDir(o Options) string {
	if d := os.Getenv("SYMGO_OUT"); d != "" {
		return d
	}
	return o.VerifDir
}
