package sym

import (
	"fmt"
	"go/types"

	"golang.org/x/tools/go/ssa"
)

// Cooperative scheduler for interpreted goroutines. Each interpreted goroutine runs on its own host
// goroutine, but only the holder of the baton executes; control changes hands only at blocking
// operations (channel send/receive, select, WaitGroup.Wait) and at goroutine exit. The default policy is
// deterministic (run until blocked, then the next runnable goroutine in creation order, round robin);
// with schedule exploration enabled, the choice among runnable goroutines at every switch point is a
// symbolic decision that the explorer forks over.

type gor struct {
	id      int
	wake    chan struct{}
	done    bool
	started bool
	ready   func() bool // nil when runnable; otherwise the condition it waits for
	depth   int
	vc      vclock
	fn      Value
	args    []Value
	what    string
}

type sched struct {
	gs       []*gor
	cur      *gor
	aborting bool
	cause    interface{} // panic payload to re-raise in the main goroutine
	explore  bool
	switches int
	hostDone chan struct{}
	live     int
	wg       map[*Value]*int
	deviations, maxDev int
}

type abortGoroutine struct{}

func (ip *Interp) scheduler() *sched {
	if ip.sch == nil {
		main := &gor{id: 0, wake: make(chan struct{}, 1), started: true}
		ip.sch = &sched{gs: []*gor{main}, cur: main, hostDone: make(chan struct{}, 64), wg: map[*Value]*int{}}
	}
	return ip.sch
}

// spawn registers a new goroutine; it starts running when first scheduled.
func (ip *Interp) spawn(fn Value, args []Value, what string) {
	s := ip.scheduler()
	if len(s.gs) > 64 {
		panic(pathEnd{"budget", "more than 64 goroutines"})
	}
	g := &gor{id: len(s.gs), wake: make(chan struct{}, 1), fn: fn, args: args, what: what}
	s.gs = append(s.gs, g)
	s.live++
	ip.raceSpawn(s.cur, g)
	go func() {
		<-g.wake
		defer func() {
			r := recover()
			g.done = true
			if r != nil {
				if _, ok := r.(abortGoroutine); !ok && !s.aborting {
					// this goroutine ended the path: hand the cause to the main goroutine
					s.aborting = true
					s.cause = r
				}
			}
			s.hostDone <- struct{}{}
			if s.aborting {
				if r != nil {
					if _, ok := r.(abortGoroutine); !ok {
						// wake main so that it re-raises
						ip.wakeMainForAbort()
					}
				}
				return
			}
			// normal exit: pass the baton
			ip.passBaton(g)
		}()
		if s.aborting {
			panic(abortGoroutine{})
		}
		g.started = true
		s.cur = g
		ip.call(g.fn, g.args, nil)
	}()
}

func (ip *Interp) wakeMainForAbort() {
	s := ip.sch
	m := s.gs[0]
	select {
	case m.wake <- struct{}{}:
	default:
	}
}

// runnable lists goroutines that can make progress now.
func (s *sched) runnable(except *gor) []*gor {
	var out []*gor
	n := len(s.gs)
	start := 0
	if s.cur != nil {
		start = s.cur.id + 1
	}
	for k := 0; k < n; k++ {
		g := s.gs[(start+k)%n]
		if g.done || g == except {
			continue
		}
		if g.ready == nil || g.ready() {
			out = append(out, g)
		}
	}
	return out
}

// pick chooses the next goroutine among candidates (deterministically, or by symbolic decision).
func (ip *Interp) pick(c []*gor) *gor {
	s := ip.sch
	if len(c) == 1 || !s.explore || s.deviations >= s.maxDev {
		return c[0]
	}
	s.switches++
	v := ip.p.NewVar(fmt.Sprintf("sched!%d", s.switches), 8, 0)
	ip.p.Assume(ip.p.T.Cmp(OpUlt, v, ip.p.T.Const(8, uint64(len(c)))))
	k := int(ip.p.Concretize(v))
	ip.p.note("goroutine schedule explored")
	if k > 0 {
		s.deviations++
	}
	return c[k]
}

// passBaton is called by a goroutine that finished: somebody else must run.
func (ip *Interp) passBaton(from *gor) {
	s := ip.sch
	c := s.runnable(from)
	if len(c) == 0 {
		// nobody can run: if main is blocked this is a deadlock, which main reports
		s.aborting = true
		s.cause = pathEnd{"deadlock", "all goroutines are asleep"}
		ip.wakeMainForAbort()
		return
	}
	var next *gor
	func() {
		defer func() {
			if r := recover(); r != nil {
				s.aborting = true
				s.cause = r
				next = nil
			}
		}()
		next = ip.pick(c)
	}()
	if next == nil {
		ip.wakeMainForAbort()
		return
	}
	next.ready = nil
	s.cur = next
	next.wake <- struct{}{}
}

// block parks the current goroutine until ready() holds.
func (ip *Interp) block(ready func() bool, what string) {
	if ready() {
		return
	}
	s := ip.scheduler()
	g := s.cur
	if ip.initMode {
		panic(pathEnd{"block", "blocking operation in a package initialiser: " + what})
	}
	for {
		g.ready = ready
		g.what = what
		c := s.runnable(nil)
		if len(c) == 0 {
			if g.id != 0 {
				s.aborting = true
				s.cause = pathEnd{"deadlock", "all goroutines are asleep (" + what + ")"}
				ip.wakeMainForAbort()
				<-g.wake
				panic(abortGoroutine{})
			}
			panic(pathEnd{"deadlock", "all goroutines are asleep (" + what + ")"})
		}
		next := ip.pick(c)
		if next == g {
			g.ready = nil
			return
		}
		next.ready = nil
		s.cur = next
		next.wake <- struct{}{}
		<-g.wake
		if s.aborting {
			if g.id == 0 {
				panic(s.cause)
			}
			panic(abortGoroutine{})
		}
		s.cur = g
		if ready() {
			g.ready = nil
			return
		}
	}
}

// yield gives other goroutines a chance to run (used at channel operations when exploring schedules).
func (ip *Interp) yield(what string) {
	s := ip.sch
	if s == nil || !s.explore || len(s.gs) < 2 {
		return
	}
	g := s.cur
	c := s.runnable(nil)
	if len(c) < 2 {
		return
	}
	// put the current goroutine first so that choice 0 means "no preemption"
	ord := []*gor{g}
	for _, x := range c {
		if x != g {
			ord = append(ord, x)
		}
	}
	next := ip.pick(ord)
	if next == g {
		return
	}
	next.ready = nil
	s.cur = next
	next.wake <- struct{}{}
	<-g.wake
	if s.aborting {
		if g.id == 0 {
			panic(s.cause)
		}
		panic(abortGoroutine{})
	}
	s.cur = g
}

// shutdown ends all goroutines of the path (called by the main goroutine when the path is over).
func (ip *Interp) shutdown() {
	s := ip.sch
	if s == nil {
		return
	}
	s.aborting = true
	if s.cause == nil {
		s.cause = abortGoroutine{}
	}
	finished := 0
	// count already finished
	for {
		select {
		case <-s.hostDone:
			finished++
			continue
		default:
		}
		break
	}
	for _, g := range s.gs[1:] {
		if !g.done {
			select {
			case g.wake <- struct{}{}:
			default:
			}
		}
	}
	for finished < s.live {
		<-s.hostDone
		finished++
	}
}

// ---- channel operations with blocking ----

func (ip *Interp) chanSend(cv Value, v Value) {
	c, ok := cv.(*ChanV)
	if !ok {
		if o, ok := cv.(*Opaque); ok {
			unsupported("send on opaque channel (%s)", o.Why)
		}
		panic(engineError{fmt.Sprintf("send on %T", cv)})
	}
	if c == nil {
		ip.block(func() bool { return false }, "send on nil channel")
	}
	if ip.sch != nil {
		ip.yield("send")
	}
	if c.closed {
		ip.goPanic("send on closed channel")
	}
	capn := c.cap
	if capn == 0 {
		capn = 1
	}
	if len(c.buf) >= capn {
		ip.block(func() bool { return c.closed || len(c.buf) < capn }, "chan send")
		if c.closed {
			ip.goPanic("send on closed channel")
		}
	}
	if ip.race != nil && c.cap > 0 && c.sends >= c.cap && c.sends-c.cap < len(c.recvVCs) {
		// the k-th receive on a channel of capacity C is synchronised before the completion of the (k+C)-th send
		ip.raceAcquire(c.recvVCs[c.sends-c.cap])
	}
	c.sends++
	item := &chanItem{v: copyVal(v), vc: ip.raceRelease()}
	c.items = append(c.items, item)
	c.buf = append(c.buf, item.v)
	if c.cap == 0 {
		// rendez-vous: the send completes only when a receiver has taken the value
		ip.block(func() bool { return item.taken }, "chan send (unbuffered)")
		ip.raceAcquire(item.recvVC)
	}
}

type chanItem struct {
	v      Value
	taken  bool
	vc     vclock // sender's clock at the send
	recvVC vclock // receiver's clock at the receive (unbuffered rendez-vous)
}

// chanTake is the receiver's side of the synchronisation of one item.
func (ip *Interp) chanTake(c *ChanV, it *chanItem) {
	it.taken = true
	if ip.race != nil {
		ip.raceAcquire(it.vc)
		rv := ip.raceRelease()
		it.recvVC = rv
		c.recvVCs = append(c.recvVCs, rv)
	}
}

func (ip *Interp) chanRecv(cv Value) (Value, bool) {
	c, ok := cv.(*ChanV)
	if !ok {
		if o, ok := cv.(*Opaque); ok {
			unsupported("receive on opaque channel (%s)", o.Why)
		}
		panic(engineError{fmt.Sprintf("receive on %T", cv)})
	}
	if c == nil {
		ip.block(func() bool { return false }, "receive on nil channel")
	}
	if ip.sch != nil {
		ip.yield("recv")
	}
	if len(c.buf) == 0 && !c.closed {
		ip.block(func() bool { return len(c.buf) > 0 || c.closed }, "chan receive")
	}
	if len(c.buf) > 0 {
		v := c.buf[0]
		c.buf = c.buf[1:]
		if len(c.items) > 0 {
			ip.chanTake(c, c.items[0])
			c.items = c.items[1:]
		}
		return v, true
	}
	ip.raceAcquire(c.closeVC)
	return ip.zero(c.elem), false
}

func (ip *Interp) selectOp(in *ssa.Select, fr *frame) Value {
	T := ip.p.T
	type st struct {
		c *ChanV
	}
	var chans []*ChanV
	for _, s := range in.States {
		if s.Dir != types.RecvOnly {
			unsupported("select with a send case in %s", fr.fn)
		}
		c, _ := fr.get(s.Chan).(*ChanV)
		chans = append(chans, c)
	}
	readyIdx := func() []int {
		var r []int
		for i, c := range chans {
			if c != nil && (len(c.buf) > 0 || c.closed) {
				r = append(r, i)
			}
		}
		return r
	}
	if ip.sch != nil {
		ip.yield("select")
	}
	r := readyIdx()
	if len(r) == 0 {
		if !in.Blocking {
			res := TupleV{T.Const(64, ^uint64(0)), T.False}
			for _, s := range in.States {
				res = append(res, ip.zero(s.Chan.Type().Underlying().(*types.Chan).Elem()))
			}
			return res
		}
		ip.block(func() bool { return len(readyIdx()) > 0 }, "select")
		r = readyIdx()
	}
	chosen := r[0]
	if len(r) > 1 && ip.sch != nil && ip.sch.explore && ip.sch.deviations < ip.sch.maxDev {
		// Go chooses uniformly among ready cases: explore every choice
		ip.sch.switches++
		v := ip.p.NewVar(fmt.Sprintf("select!%d", ip.sch.switches), 8, 0)
		ip.p.Assume(T.Cmp(OpUlt, v, T.Const(8, uint64(len(r)))))
		k := int(ip.p.Concretize(v))
		if k > 0 {
			ip.sch.deviations++
		}
		chosen = r[k]
	}
	c := chans[chosen]
	var val Value
	okv := true
	if len(c.buf) > 0 {
		val = c.buf[0]
		c.buf = c.buf[1:]
		if len(c.items) > 0 {
			ip.chanTake(c, c.items[0])
			c.items = c.items[1:]
		}
	} else {
		val = ip.zero(c.elem)
		okv = false
		ip.raceAcquire(c.closeVC)
	}
	res := TupleV{T.Const(64, uint64(chosen)), T.Bool(okv)}
	for i, s := range in.States {
		if i == chosen {
			res = append(res, val)
		} else {
			res = append(res, ip.zero(s.Chan.Type().Underlying().(*types.Chan).Elem()))
		}
	}
	return res
}

// ---- sync.WaitGroup ----

func (ip *Interp) wgCounter(p Value) *int {
	s := ip.scheduler()
	slot := p.(Pointer).Slot
	c, ok := s.wg[slot]
	if !ok {
		c = new(int)
		s.wg[slot] = c
	}
	return c
}
