package sym

import (
	"bufio"
	"fmt"
	"io"
	"os"
	"os/exec"
	"strconv"
	"strings"
	"sync/atomic"
	"time"
)

// Solver is a long-lived SMT solver process spoken to over a text pipe.
type Solver struct {
	cmd     *exec.Cmd
	in      io.WriteCloser
	out     *bufio.Reader
	Queries int
	Time    time.Duration
	Errors  int
	name    string
	log     io.Writer
}

var SolverTimeoutMs = 20000

func NewSolver(kind string) (*Solver, error) {
	var cmd *exec.Cmd
	switch kind {
	case "z3":
		cmd = exec.Command("z3", "-in", "-smt2")
	case "", "z3-new":
		kind = "z3-new"
		cmd = exec.Command("z3-new", "-in", "-smt2")
	case "cvc5":
		cmd = exec.Command("cvc5", "--incremental", "--lang=smt2", "--produce-models", fmt.Sprintf("--tlimit-per=%d", SolverTimeoutMs))
	default:
		return nil, fmt.Errorf("unknown solver %q", kind)
	}
	in, err := cmd.StdinPipe()
	if err != nil {
		return nil, err
	}
	outp, err := cmd.StdoutPipe()
	if err != nil {
		return nil, err
	}
	cmd.Stderr = nil
	if err := cmd.Start(); err != nil {
		return nil, err
	}
	s := &Solver{cmd: cmd, in: in, out: bufio.NewReaderSize(outp, 1<<16), name: kind}
	if d := os.Getenv("SYMGO_LOG"); d != "" {
		f, _ := os.Create(fmt.Sprintf("%s/solver_%d.smt2", d, cmd.Process.Pid))
		s.log = f
	}
	s.Preamble()
	return s, nil
}

// Preamble (re)establishes options and logic; sent at start and after every (reset).
func (s *Solver) Preamble() {
	if s.name == "cvc5" {
		s.Send("(set-logic QF_BV)\n")
	} else {
		s.Send(fmt.Sprintf("(set-option :timeout %d)\n(set-logic QF_BV)\n", SolverTimeoutMs))
	}
}

func (s *Solver) Close() {
	if s == nil || s.cmd == nil {
		return
	}
	s.in.Close()
	s.cmd.Process.Kill()
	s.cmd.Wait()
	s.cmd = nil
}

func (s *Solver) Send(txt string) {
	if s.log != nil {
		io.WriteString(s.log, txt)
	}
	if _, err := io.WriteString(s.in, txt); err != nil {
		panic(engineError{"solver pipe write: " + err.Error()})
	}
}

func (s *Solver) readLine() string {
	line, err := s.out.ReadString('\n')
	if err != nil && line == "" {
		panic(engineError{"solver pipe read: " + err.Error()})
	}
	return strings.TrimSpace(line)
}

// CheckSat returns "sat", "unsat" or "unknown"/"error: ...".
func (s *Solver) CheckSat() string { return s.check("(check-sat)\n") }

// CheckSatAssuming checks the asserted formulas together with one assumption literal.
func (s *Solver) CheckSatAssuming(lit string) string {
	return s.check("(check-sat-assuming (" + lit + "))\n")
}

func (s *Solver) check(cmd string) string {
	t0 := time.Now()
	s.Send(cmd)
	r := s.readLine()
	for r == "" {
		r = s.readLine()
	}
	s.Queries++
	d := time.Since(t0)
	s.Time += d
	if qhist != nil {
		qhistAdd(d, r)
	}
	if strings.HasPrefix(r, "(error") {
		s.Errors++
		return "error: " + r
	}
	return r
}

// readSexp reads a balanced s-expression from the solver.
func (s *Solver) readSexp() string {
	var sb strings.Builder
	depth := 0
	started := false
	inBar := false
	inStr := false
	for {
		b, err := s.out.ReadByte()
		if err != nil {
			panic(engineError{"solver pipe read: " + err.Error()})
		}
		sb.WriteByte(b)
		if inBar {
			if b == '|' {
				inBar = false
			}
			continue
		}
		if inStr {
			if b == '"' {
				inStr = false
			}
			continue
		}
		switch b {
		case '|':
			inBar = true
		case '"':
			inStr = true
		case '(':
			depth++
			started = true
		case ')':
			depth--
		}
		if started && depth == 0 {
			return sb.String()
		}
	}
}

// GetValues asks for the values of the named constants (declared variables).
func (s *Solver) GetValues(vars []*Term) map[string]uint64 {
	res := map[string]uint64{}
	if len(vars) == 0 {
		return res
	}
	var sb strings.Builder
	sb.WriteString("(get-value (")
	for _, v := range vars {
		sb.WriteString(v.ref())
		sb.WriteByte(' ')
	}
	sb.WriteString("))\n")
	s.Send(sb.String())
	txt := s.readSexp()
	if strings.HasPrefix(strings.TrimSpace(txt), "(error") {
		s.Errors++
		panic(engineError{"get-value: " + txt})
	}
	// parse pairs ((|name| val) ...)
	i := 0
	n := len(txt)
	skipWS := func() {
		for i < n && (txt[i] == ' ' || txt[i] == '\n' || txt[i] == '\t' || txt[i] == '\r') {
			i++
		}
	}
	skipWS()
	i++ // outer (
	for {
		skipWS()
		if i >= n || txt[i] == ')' {
			break
		}
		if txt[i] != '(' {
			panic(engineError{"get-value parse: " + txt})
		}
		i++
		skipWS()
		var name string
		if txt[i] == '|' {
			j := strings.IndexByte(txt[i+1:], '|')
			name = txt[i+1 : i+1+j]
			i = i + 1 + j + 1
		} else {
			j := i
			for txt[j] != ' ' && txt[j] != '\n' {
				j++
			}
			name = txt[i:j]
			i = j
		}
		skipWS()
		// value: #x.. #b.. true false or (_ bvN w)
		j := i
		if txt[i] == '(' {
			d := 0
			for {
				if txt[j] == '(' {
					d++
				} else if txt[j] == ')' {
					d--
					if d == 0 {
						j++
						break
					}
				}
				j++
			}
		} else {
			for txt[j] != ')' && txt[j] != ' ' && txt[j] != '\n' {
				j++
			}
		}
		val := txt[i:j]
		i = j
		skipWS()
		i++ // )
		res[name] = parseVal(val)
	}
	return res
}

func parseVal(v string) uint64 {
	switch {
	case v == "true":
		return 1
	case v == "false":
		return 0
	case strings.HasPrefix(v, "#x"):
		u, _ := strconv.ParseUint(v[2:], 16, 64)
		return u
	case strings.HasPrefix(v, "#b"):
		u, _ := strconv.ParseUint(v[2:], 2, 64)
		return u
	case strings.HasPrefix(v, "(_ bv"):
		f := strings.Fields(v[5:])
		u, _ := strconv.ParseUint(f[0], 10, 64)
		return u
	}
	panic(engineError{"parseVal: " + v})
}

// engineError is raised (as a panic) for conditions that make a run inconclusive.
type engineError struct{ msg string }

func (e engineError) Error() string { return e.msg }

var qhist []int64
var qhistT []int64

func init() {
	if os.Getenv("SYMGO_QHIST") != "" {
		qhist = make([]int64, 16)
		qhistT = make([]int64, 16)
	}
}

func qhistAdd(d time.Duration, r string) {
	ms := d.Milliseconds()
	b := 0
	for ms > 0 {
		b++
		ms >>= 1
	}
	if b > 15 {
		b = 15
	}
	atomic.AddInt64(&qhist[b], 1)
	atomic.AddInt64(&qhistT[b], int64(d))
}

// QHistString reports the query time histogram (log2 buckets of milliseconds).
func QHistString() string {
	if qhist == nil {
		return ""
	}
	out := ""
	for i := range qhist {
		if qhist[i] > 0 {
			out += fmt.Sprintf("<%dms: n=%d total=%.1fs\n", 1<<uint(i), qhist[i], float64(qhistT[i])/1e9)
		}
	}
	return out
}
