package main

import (
	"flag"
	"fmt"
	"os"
	"runtime"
	"runtime/debug"
	"runtime/pprof"
	"strconv"

	"symgo/sym"
)

func main() {
	if os.Getenv("GOGC") == "" {
		debug.SetGCPercent(400)
	}
	if len(os.Args) < 2 {
		fmt.Println("usage: symgo run|replay [flags]")
		os.Exit(2)
	}
	switch os.Args[1] {
	case "run":
		fs := flag.NewFlagSet("run", flag.ExitOnError)
		var o sym.Options
		fs.StringVar(&o.VerifDir, "verif", "/verif", "verification directory")
		fs.StringVar(&o.Repo, "repo", envOr("VERIF_REPO", "/repo"), "repository under test")
		fs.StringVar(&o.Prop, "prop", "", "property id")
		fs.StringVar(&o.Tier, "tier", envOr("VERIF_TIER", "quick"), "quick|thorough")
		fs.IntVar(&o.Workers, "workers", runtime.NumCPU(), "parallel workers")
		fs.StringVar(&o.OnlyUnit, "unit", "", "run only this harness")
		fs.BoolVar(&o.NoReplay, "no-replay", false, "skip native replay and selftest")
		fs.BoolVar(&o.NoCross, "no-cross", false, "skip cross-solver check")
		fs.BoolVar(&o.Verbose, "v", false, "verbose")
		fs.BoolVar(&o.Trace, "trace", false, "print every path")
		fs.IntVar(&o.TimeoutS, "timeout-s", 0, "override per-unit time budget (seconds)")
		fs.IntVar(&o.MaxPaths, "max-paths", 0, "stop after this many paths")
		fs.Parse(os.Args[2:])
		o.Seed, _ = strconv.Atoi(envOr("VERIF_SEED", "1"))
		if pf := os.Getenv("SYMGO_CPUPROFILE"); pf != "" {
			f, err := os.Create(pf)
			if err == nil {
				pprof.StartCPUProfile(f)
			}
			code := sym.RunProperty(o)
			pprof.StopCPUProfile()
			os.Exit(code)
		}
		os.Exit(sym.RunProperty(o))
	case "replay":
		fs := flag.NewFlagSet("replay", flag.ExitOnError)
		var o sym.Options
		fs.StringVar(&o.VerifDir, "verif", "/verif", "verification directory")
		fs.StringVar(&o.Repo, "repo", envOr("VERIF_REPO", "/repo"), "repository under test")
		fs.Parse(os.Args[2:])
		if fs.NArg() != 1 {
			fmt.Println("usage: symgo replay [--repo R] <file.json>")
			os.Exit(2)
		}
		code := sym.ReplayFile(o, fs.Arg(0))
		if code == 1 {
			fmt.Println("REPRODUCED")
		}
		os.Exit(code)
	}
	fmt.Println("unknown command")
	os.Exit(2)
}

func envOr(k, d string) string {
	if v := os.Getenv(k); v != "" {
		return v
	}
	return d
}
